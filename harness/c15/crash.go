package c15

// spec "crash" (oracle ii) and spec "realcrash" (the same oracle on directories left
// behind by a process that really died).

import (
	"encoding/binary"
	"encoding/json"
	"fmt"
	"os"
	"os/exec"
	"path/filepath"
	"sort"
	"strings"
	"syscall"
	"time"

	"github.com/feichai0017/NoKV/manifest"
	"github.com/feichai0017/NoKV/vfs"
	"nokvverif/internal/pbt"
	"nokvverif/internal/vfsx"
)

// frameBounds returns the offsets at which manifest frames (u32 length + payload) start in data.
func frameBounds(data []byte) []int {
	var out []int
	off := 0
	for off+4 <= len(data) {
		out = append(out, off)
		n := int(binary.LittleEndian.Uint32(data[off:]))
		if n <= 0 || off+4+n > len(data) {
			return out
		}
		off += 4 + n
	}
	return out
}

func sortedKeys(set map[int]bool, n int) []int {
	ks := make([]int, 0, len(set))
	for k := range set {
		if k > 0 && k < n {
			ks = append(ks, k)
		}
	}
	sort.Ints(ks)
	return ks
}

// tornSet chooses the byte prefixes of one write at which images are taken: every prefix
// for payloads up to `every` bytes, otherwise the prefixes around frame boundaries (frame
// complete, inside the length header, header complete without payload, first payload
// byte, last byte missing) for the first/last frames and an evenly spaced selection of
// the others, plus every stride-th byte if stride > 0.
func tornSet(data []byte, every, stride int) []int {
	n := len(data)
	if n <= 1 {
		return nil
	}
	if n <= every {
		ks := make([]int, 0, n-1)
		for k := 1; k < n; k++ {
			ks = append(ks, k)
		}
		return ks
	}
	b := frameBounds(data)
	pick := map[int]bool{}
	if len(b) <= 8 {
		for i := range b {
			pick[i] = true
		}
	} else {
		for _, i := range []int{0, 1, len(b) - 2, len(b) - 1} {
			pick[i] = true
		}
		for j := 1; j <= 4; j++ {
			pick[j*(len(b)-1)/5] = true
		}
	}
	set := map[int]bool{n - 1: true, n / 2: true}
	for i, off := range b {
		if !pick[i] {
			continue
		}
		for _, d := range []int{0, 1, 3, 4, 5} {
			set[off+d] = true
		}
		if i+1 < len(b) {
			set[b[i+1]-1] = true
		}
	}
	if stride > 0 {
		for k := stride; k < n; k += stride {
			set[k] = true
		}
	}
	return sortedKeys(set, n)
}

// tornSparse: inside the first length header, first header complete, first frame complete,
// middle, last frame boundary, last byte missing.
func tornSparse(data []byte) []int {
	n := len(data)
	if n <= 8 {
		return tornSet(data, 8, 0)
	}
	b := frameBounds(data)
	set := map[int]bool{1: true, 4: true, n / 2: true, n - 1: true}
	if len(b) > 1 {
		set[b[1]] = true
		set[b[len(b)-1]] = true
	}
	return sortedKeys(set, n)
}

// imgCtx describes one capture point of a driven session.
type imgCtx struct {
	Seq      int    // number of the image within the session
	Acked    int    // edits whose call has returned success
	Inflight int    // edits of the call in progress
	Op       string // client call in progress ("open", "log", "batch", …, or "" at a call boundary)
	Phase    string // "", or where inside createNew / rewriteLocked the image sits
	Pt       vfsx.Point
}

func (ic imgCtx) String() string {
	return fmt.Sprintf("image #%d (%s of FS op %d %s %s, written %d/%d) during %q; %d edits acknowledged, %d in flight",
		ic.Seq, ic.Pt.Phase, ic.Pt.Rec.Index, ic.Pt.Rec.Op, filepath.Base(ic.Pt.Rec.Path), ic.Pt.Written, ic.Pt.Rec.Len, ic.Op, ic.Acked, ic.Inflight)
}

type driveStats struct {
	images       int
	autoRewrites int
	ctr          vfsx.Counters
}

// drive executes the session on a vfsx shim over dir and calls onImage at every capture
// point: before the first FS operation, after every mutating FS operation, at the torn
// prefixes of every write payload, and at every call boundary.  onImage runs while the
// filesystem is quiescent; a non-nil error aborts the session and is returned.
func drive(c Case, dir string, plans []opPlan, states []string, deepTorn bool, onImage func(ic imgCtx) error) (driveStats, error) {
	var (
		st       driveStats
		fail     error
		acked    int
		inflight int
		opName   = "open"
		rwPhase  string
	)
	fs := vfsx.New(nil)
	fire := func(pt vfsx.Point, op string) {
		if fail != nil {
			return
		}
		ic := imgCtx{Seq: st.images, Acked: acked, Inflight: inflight, Op: op, Phase: rwPhase, Pt: pt}
		st.images++
		fail = onImage(ic)
	}
	phase := func(step string) {
		if opName == "open" || opName == "reopen" {
			rwPhase = "create:" + step
		} else {
			rwPhase = "rewrite:" + step
		}
	}
	plan := func(rec vfsx.Rec, data []byte) vfsx.Action {
		a := vfsx.Action{Before: rec.Index == 0, After: rec.Mut}
		if rec.Op == vfs.OpFileWrite || rec.Op == vfs.OpWriteFile || rec.Op == vfsx.OpFileWriteAt {
			switch {
			case rec.Op == vfs.OpWriteFile:
				// the temp CURRENT: nobody reads it back, Verify deletes it
				if filepath.Base(rec.Path) == "CURRENT.tmp" {
					phase("new-manifest-complete")
				}
				if deepTorn {
					a.Torn = append([]int{0}, tornSet(data, 64, 0)...)
				} else {
					a.Torn = []int{0, 1, len(data) - 1}
				}
			case strings.HasSuffix(rwPhase, "new-manifest-incomplete"):
				// snapshot body of a manifest CURRENT does not point to yet
				if deepTorn {
					a.Torn = tornSet(data, 64, 0)
				} else {
					a.Torn = tornSparse(data)
				}
			case deepTorn:
				a.Torn = tornSet(data, 512, 16)
			default:
				a.Torn = tornSet(data, 32, 0)
			}
		}
		return a
	}
	capture := func(pt vfsx.Point) {
		// rwPhase is advanced before the After image of the operation that completes a step
		if pt.Phase == vfsx.After && pt.Rec.Err == "" {
			base := filepath.Base(pt.Rec.Path)
			switch {
			case pt.Rec.Op == vfs.OpOpenFile && pt.Rec.Flag&os.O_CREATE != 0 && strings.HasPrefix(base, "MANIFEST-"):
				phase("new-manifest-incomplete")
			case pt.Rec.Op == vfs.OpWriteFile && base == "CURRENT.tmp":
				phase("tmp-current-written")
			case pt.Rec.Op == vfs.OpRename && filepath.Base(pt.Rec.Path2) == "CURRENT":
				phase("current-switched")
			case pt.Rec.Op == vfs.OpRemove && strings.HasPrefix(base, "MANIFEST-"):
				phase("old-removed")
			}
		}
		fire(pt, opName)
	}
	fs.SetPlan(plan, capture)
	// boundary: same bytes as the previous image, but the call has returned, so all its
	// edits count as acknowledged (single client goroutine: nothing runs concurrently).
	boundary := func() {
		rwPhase = ""
		fire(vfsx.Point{Rec: vfsx.Rec{Index: fs.Len() - 1, Op: "call-boundary"}, Phase: vfsx.After}, "")
	}
	done := func(err error) (driveStats, error) {
		st.ctr = fs.Counters()
		if fail != nil {
			return st, fail
		}
		return st, err
	}

	mgr, err := verifyOpen(dir, fs)
	if err != nil {
		return done(pbt.Failf("open-fails", "fresh directory: %v", err))
	}
	defer func() { _ = mgr.Close() }()
	threshold := c.Threshold
	mgr.SetRewriteThreshold(threshold)
	boundary()
	for i, op := range c.Ops {
		if fail != nil {
			break
		}
		at := fmt.Sprintf("op %d (%s)", i, op.K)
		opName = op.K
		if op.K == "log" && len(op.Edits) > 1 {
			opName = "batch"
		}
		inflight = plans[i].n
		rwPhase = ""
		if op.K == "reopen" {
			if err := mgr.Close(); err != nil {
				return done(pbt.Failf("close-fails", "%s: %v", at, err))
			}
			m2, err := verifyOpen(dir, fs)
			if err != nil {
				return done(pbt.Failf("reload-fails", "%s: %v", at, err))
			}
			mgr = m2
			mgr.SetRewriteThreshold(threshold)
		} else {
			cur := readCurrent(dir)
			err := callOp(mgr, op)
			if op.K == "thresh" {
				threshold = op.Thresh
			}
			if plans[i].wantErr {
				if err == nil {
					return done(pbt.Failf("harness-model-divergence", "%s: expected an error (group id 0), got nil", at))
				}
			} else if err != nil {
				return done(pbt.Failf("edit-fails", "%s returned %v", at, err))
			}
			if readCurrent(dir) != cur && op.K != "rewrite" {
				st.autoRewrites++
			}
		}
		acked += inflight
		inflight = 0
		if fail != nil {
			break
		}
		if mem, want := canon(mgr.Current()), states[acked]; mem != want {
			return done(pbt.Failf("harness-model-divergence", "%s: Current() differs from the reference model:\n%s", at, diff(want, mem, "model", "memory")))
		}
		boundary()
	}
	return done(nil)
}

var probeRegion = manifest.RegionMeta{ID: 0xC15C15C15, StartKey: []byte("c15-probe"), State: manifest.RegionStateRunning,
	Peers: []manifest.PeerMeta{{StoreID: 1, PeerID: 2}}}

// judgeImage decides oracle (ii) for one directory: it must Verify+Open to the state after
// a prefix p of the edit list, acked <= p <= acked+inflight.  With probe != 0 the recovered
// manager additionally logs one more edit (probe 2: with a forced rewrite) and must reload
// to its own memory state.  Returns the matched prefix.
func judgeImage(img string, states []string, acked, inflight int, probe int, where string, r *pbt.Rec) (int, error) {
	var sizeBefore int64 = -1
	if cur := readCurrent(img); cur != "" {
		if st, err := os.Stat(filepath.Join(img, cur)); err == nil {
			sizeBefore = st.Size()
		}
	}
	m2, err := verifyOpen(img, nil)
	if err != nil {
		return -1, pbt.Failf("image-reopen-fails", "%s: the crash image does not reopen: %v", where, err)
	}
	got := canon(m2.Current())
	match := -1
	for p := acked; p <= acked+inflight && p < len(states); p++ {
		if states[p] == got {
			match = p
			break
		}
	}
	if match < 0 {
		_ = m2.Close()
		for p := range states {
			if states[p] == got {
				if p < acked {
					return -1, pbt.Failf("image-lost-acked-edit", "%s: the image opens to the state after %d edits — %d acknowledged edit(s) are missing:\n%s",
						where, p, acked-p, diff(states[acked], got, "state after acknowledged edits", "image"))
				}
				return -1, pbt.Failf("image-from-the-future", "%s: the image opens to the state after %d edits, beyond everything started", where, p)
			}
		}
		return -1, pbt.Failf("image-not-a-prefix", "%s: the image opens to a state that is not the state after any prefix of the edit list; against the acknowledged prefix:\n%s",
			where, diff(states[acked], got, "state after acknowledged edits", "image"))
	}
	if cur := readCurrent(img); cur != "" && sizeBefore >= 0 {
		if st, err := os.Stat(filepath.Join(img, cur)); err == nil && st.Size() < sizeBefore {
			r.Label("img:verify-truncated-tail")
		}
	}
	if probe == 0 {
		_ = m2.Close()
		return match, nil
	}
	if probe == 2 {
		m2.SetRewriteThreshold(1)
		r.Label("probe:with-rewrite")
	} else {
		r.Label("probe:append")
	}
	if err := m2.LogRegionUpdate(probeRegion); err != nil {
		_ = m2.Close()
		return -1, pbt.Failf("recovered-edit-fails", "%s: edit on the recovered manager: %v", where, err)
	}
	mem := canon(m2.Current())
	if err := m2.Close(); err != nil {
		return -1, pbt.Failf("close-fails", "%s: Close of the recovered manager: %v", where, err)
	}
	m3, err := verifyOpen(img, nil)
	if err != nil {
		return -1, pbt.Failf("recovered-reload-fails", "%s: after one more edit on the recovered manager: %v", where, err)
	}
	again := canon(m3.Current())
	_ = m3.Close()
	if again != mem || mem == got {
		return -1, pbt.Failf("recovered-reload-differs", "%s: recovered manager + 1 edit reloads differently:\n%s", where, diff(mem, again, "memory", "reloaded"))
	}
	return match, nil
}

func runCrash(c Case, r *pbt.Rec) error {
	if err := validate(c); err != nil {
		return err
	}
	plans, states, fams := expect(c)
	labelCase(c, r, fams)
	dir, cleanup := pbt.TempDir("c15c")
	defer cleanup()
	img := dir + "-img"
	defer os.RemoveAll(img)
	sawTmpCur, sawTorn, sawPart := false, false, false

	st, err := drive(c, dir, plans, states, pbt.Tier() == "thorough", func(ic imgCtx) error {
		_ = os.RemoveAll(img)
		if err := vfsx.CopyDir(dir, img); err != nil {
			return fmt.Errorf("harness: copy: %v", err)
		}
		probe := 0
		if ic.Seq%3 == 0 {
			probe = 1 + ic.Seq%2
		}
		match, err := judgeImage(img, states, ic.Acked, ic.Inflight, probe, ic.String(), r)
		if err != nil {
			return err
		}
		r.Label("img:" + ic.Pt.Phase.String())
		if ic.Op == "" {
			r.Label("img:call-boundary")
		} else {
			r.Label("img:during:" + ic.Op)
		}
		if ic.Phase != "" {
			r.Label("img:" + ic.Phase)
			if ic.Phase == "rewrite:tmp-current-written" {
				sawTmpCur = true
			}
		}
		if ic.Pt.Phase == vfsx.Torn {
			sawTorn = true
		}
		if ic.Inflight > 0 {
			switch {
			case match == ic.Acked:
				r.Label("img:inflight-absent")
			case match == ic.Acked+ic.Inflight:
				r.Label("img:inflight-present")
			default:
				r.Label("img:partial-batch-visible")
				sawPart = true
			}
		}
		return nil
	})
	if err != nil {
		return err
	}
	r.LabelN("fs-ops", int(st.ctr.Ops))
	r.LabelN("fs-ops-mutating", int(st.ctr.Mutating))
	r.LabelN("images", st.images)
	r.LabelN("rewrite:auto", st.autoRewrites)
	if sawTorn {
		r.Label("case:torn-images")
	}
	if sawPart {
		r.Label("case:partial-batch-visible")
	}
	if st.autoRewrites > 0 && allFamiliesPresent(fams) && sawTmpCur {
		r.NT()
	}
	return nil
}

// ---------------------------------------------------------------------------
// spec "realcrash": a child process runs the session on the shim and kills itself with
// SIGKILL at capture point number At (mod the number of capture points of the session);
// the parent applies the same oracle to the directory the dead process left behind.  This
// cross-checks the capture model of vfsx (copy at a quiescent instant == kill -9).

// RealCase is the replay format of spec realcrash.
type RealCase struct {
	Session Case `json:"session"`
	At      int  `json:"at"`
}

type childJob struct {
	Session Case   `json:"session"`
	K       int    `json:"k"`
	Dir     string `json:"dir"`
	Status  string `json:"status"`
}

type childStatus struct {
	Acked, Inflight int
	Where           string
	Phase           string
	Torn            bool
}

const childEnv = "C15_REALCRASH_JOB"

// ChildMain is called from TestMain: when the job variable is set the process is a crash
// victim and never returns.
func ChildMain() {
	path := os.Getenv(childEnv)
	if path == "" {
		return
	}
	b, err := os.ReadFile(path)
	if err != nil {
		fmt.Println("child: job:", err)
		os.Exit(3)
	}
	var job childJob
	if err := json.Unmarshal(b, &job); err != nil {
		fmt.Println("child: job:", err)
		os.Exit(3)
	}
	plans, states, _ := expect(job.Session)
	_, err = drive(job.Session, job.Dir, plans, states, false, func(ic imgCtx) error {
		if ic.Seq != job.K {
			return nil
		}
		sb, _ := json.Marshal(childStatus{Acked: ic.Acked, Inflight: ic.Inflight, Where: ic.String(), Phase: ic.Phase, Torn: ic.Pt.Phase == vfsx.Torn})
		if err := os.WriteFile(job.Status, sb, 0o644); err != nil {
			fmt.Println("child: status:", err)
			os.Exit(3)
		}
		_ = syscall.Kill(os.Getpid(), syscall.SIGKILL)
		select {} // never reached past the signal
	})
	fmt.Println("child: session ended without reaching the crash point:", err)
	os.Exit(4)
}

func runReal(c RealCase, r *pbt.Rec) error {
	if err := validate(c.Session); err != nil {
		return err
	}
	plans, states, fams := expect(c.Session)
	labelCase(c.Session, r, fams)
	root, cleanup := pbt.TempDir("c15x")
	defer cleanup()
	// pass 1 (in process): count the capture points of the session
	count, err := drive(c.Session, filepath.Join(root, "count"), plans, states, false, func(imgCtx) error { return nil })
	if err != nil {
		return err
	}
	if count.images == 0 {
		return fmt.Errorf("harness: session without capture points")
	}
	k := c.At % count.images
	if k < 0 {
		k = -k
	}
	job := childJob{Session: c.Session, K: k, Dir: filepath.Join(root, "work"), Status: filepath.Join(root, "status.json")}
	jb, _ := json.Marshal(job)
	jobFile := filepath.Join(root, "job.json")
	if err := os.WriteFile(jobFile, jb, 0o644); err != nil {
		return fmt.Errorf("harness: %v", err)
	}
	exe, err := os.Executable()
	if err != nil {
		return fmt.Errorf("harness: %v", err)
	}
	cmd := exec.Command(exe, "-test.run=^TestCheck$", "-test.count=1")
	cmd.Env = append(os.Environ(), childEnv+"="+jobFile)
	var out strings.Builder
	cmd.Stdout, cmd.Stderr = &out, &out
	if err := cmd.Start(); err != nil {
		return fmt.Errorf("harness: start child: %v", err)
	}
	waitErr := make(chan error, 1)
	go func() { waitErr <- cmd.Wait() }()
	select {
	case err = <-waitErr:
	case <-time.After(2 * time.Minute):
		_ = cmd.Process.Kill()
		<-waitErr
		return fmt.Errorf("harness: crash child timed out: %s", out.String())
	}
	ws, _ := cmd.ProcessState.Sys().(syscall.WaitStatus)
	if err == nil || !ws.Signaled() || ws.Signal() != syscall.SIGKILL {
		return fmt.Errorf("harness: crash child did not die by SIGKILL (%v): %s", err, out.String())
	}
	sb, err := os.ReadFile(job.Status)
	if err != nil {
		return fmt.Errorf("harness: child status: %v", err)
	}
	var stt childStatus
	if err := json.Unmarshal(sb, &stt); err != nil {
		return fmt.Errorf("harness: child status: %v", err)
	}
	probe := 1 + k%2
	if _, err := judgeImage(job.Dir, states, stt.Acked, stt.Inflight, probe, "directory left by a SIGKILLed process at "+stt.Where, r); err != nil {
		return err
	}
	r.Label("real:killed")
	if stt.Torn {
		r.Label("real:torn-write")
	}
	if stt.Phase != "" {
		r.Label("real:" + stt.Phase)
	}
	if stt.Inflight > 0 {
		r.NT() // the process died inside an edit call
	}
	return nil
}
