package c15

import (
	"math"

	"github.com/feichai0017/NoKV/manifest"
	"nokvverif/internal/pbt"
	"pgregory.net/rapid"
)

// Input domain (re-derived from the callers of the manifest package):
//   - file ids are unique while a file is live (lsm allocates them); a file is deleted with
//     the level it lives in (lsm/executor.go); a move is Delete(L,id)+Add(L',id) in one batch
//     (moveToIngest); deletes of files that are not listed occur (levels.go:172 after a lost SST)
//     and are no-ops; levels are small non-negative ints;
//   - every other field is "arbitrary" per the property: boundary varints, empty / long keys,
//     any region state byte, any peer list;
//   - edits always carry the payload of their type (the typed wrappers never pass nil).

var u64Edges = []uint64{0, 1, 127, 128, 255, 256, 16383, 16384, 1<<32 - 1, 1 << 32, 1<<63 - 1, 1 << 63, math.MaxUint64}

func genU64() *rapid.Generator[uint64] {
	return rapid.OneOf(rapid.SampledFrom(u64Edges), rapid.Uint64Range(0, 1000), rapid.Uint64())
}

func genU32() *rapid.Generator[uint32] {
	return rapid.OneOf(rapid.SampledFrom([]uint32{0, 1, 127, 128, 16384, math.MaxUint32}), rapid.Uint32Range(0, 300), rapid.Uint32())
}

func genKey(t *rapid.T, label string) []byte {
	switch rapid.IntRange(0, 19).Draw(t, label+"-shape") {
	case 0:
		return nil
	case 1:
		return []byte{}
	case 2: // long key: crosses the 1024 threshold and bufio's 4096-byte chunk in snapshots
		return rapid.SliceOfN(rapid.Byte(), 200, 1500).Draw(t, label+"-long")
	default:
		return rapid.SliceOfN(rapid.Byte(), 1, 24).Draw(t, label)
	}
}

type genState struct {
	files  map[uint64]int // live file id -> level
	nextID uint64
	exclV  int
}

func (s *genState) liveIDs() []uint64 {
	ids := make([]uint64, 0, len(s.files))
	for id := uint64(0); id <= s.nextID+1; id++ {
		if _, ok := s.files[id]; ok {
			ids = append(ids, id)
		}
	}
	for _, e := range u64Edges { // ids drawn from the edge set
		if _, ok := s.files[e]; ok && e > s.nextID+1 {
			ids = append(ids, e)
		}
	}
	return ids
}

func genLevel(t *rapid.T) int {
	if rapid.IntRange(0, 29).Draw(t, "lvl-rare") == 0 {
		return rapid.SampledFrom([]int{64, 1 << 20, math.MaxInt32}).Draw(t, "lvl-big")
	}
	return rapid.IntRange(0, 6).Draw(t, "lvl")
}

func genFileMeta(t *rapid.T, level int, id uint64) *manifest.FileMeta {
	return &manifest.FileMeta{
		Level: level, FileID: id,
		Size:      genU64().Draw(t, "size"),
		Smallest:  genKey(t, "small"),
		Largest:   genKey(t, "large"),
		CreatedAt: genU64().Draw(t, "created"),
		ValueSize: genU64().Draw(t, "vsize"),
		Ingest:    rapid.Bool().Draw(t, "ingest"),
	}
}

func (s *genState) genAdd(t *rapid.T) E {
	var id uint64
	if rapid.IntRange(0, 14).Draw(t, "id-edge") == 0 {
		id = rapid.SampledFrom(u64Edges).Draw(t, "id-e")
		if _, live := s.files[id]; live {
			s.nextID++
			id = s.nextID
		}
	} else {
		s.nextID++
		id = s.nextID
	}
	for {
		if _, live := s.files[id]; !live {
			break
		}
		s.nextID++
		id = s.nextID
	}
	lvl := genLevel(t)
	s.files[id] = lvl
	e := E{T: uint8(manifest.EditAddFile), F: genFileMeta(t, lvl, id)}
	if rapid.IntRange(0, 3).Draw(t, "stray-seg") == 0 {
		e.Seg = genU32().Draw(t, "seg") // lsm's flush sets LogSeg on the add edit; it carries no meaning there
	}
	return e
}

func (s *genState) genDelete(t *rapid.T) E {
	live := s.liveIDs()
	mode := rapid.IntRange(0, 19).Draw(t, "del-mode")
	var lvl int
	var id uint64
	switch {
	case len(live) == 0 || mode == 0: // not listed: no-op
		id = rapid.Uint64Range(1000, 1010).Draw(t, "del-ghost")
		lvl = rapid.IntRange(0, 6).Draw(t, "del-lvl")
	case mode == 1: // listed, but named with another level: no-op
		id = rapid.SampledFrom(live).Draw(t, "del-id")
		lvl = s.files[id] + 1
	default:
		id = rapid.SampledFrom(live).Draw(t, "del-id")
		lvl = s.files[id]
		delete(s.files, id)
	}
	if rapid.IntRange(0, 3).Draw(t, "del-full") == 0 {
		return E{T: uint8(manifest.EditDeleteFile), F: genFileMeta(t, lvl, id)}
	}
	return E{T: uint8(manifest.EditDeleteFile), F: &manifest.FileMeta{Level: lvl, FileID: id}}
}

func genBucket(t *rapid.T) uint32 {
	if rapid.IntRange(0, 19).Draw(t, "bucket-rare") == 0 {
		return rapid.SampledFrom([]uint32{127, 128, math.MaxUint32}).Draw(t, "bucket-big")
	}
	return rapid.Uint32Range(0, 2).Draw(t, "bucket")
}

func genFid(t *rapid.T) uint32 {
	if rapid.IntRange(0, 19).Draw(t, "fid-rare") == 0 {
		return rapid.SampledFrom([]uint32{128, math.MaxUint32}).Draw(t, "fid-big")
	}
	return rapid.Uint32Range(0, 3).Draw(t, "fid")
}

func (s *genState) genEditOf(t *rapid.T, kind int) E {
	switch kind {
	case 0:
		return s.genAdd(t)
	case 1:
		return s.genDelete(t)
	case 2:
		return E{T: uint8(manifest.EditLogPointer), Seg: genU32().Draw(t, "wal-seg"), Off: genU64().Draw(t, "wal-off")}
	case 3:
		return E{T: uint8(manifest.EditValueLogHead), V: &manifest.ValueLogMeta{
			Bucket: genBucket(t), FileID: genFid(t), Offset: genU64().Draw(t, "vh-off"), Valid: true}}
	case 4:
		return E{T: uint8(manifest.EditDeleteValueLog), V: &manifest.ValueLogMeta{Bucket: genBucket(t), FileID: genFid(t)}}
	case 5:
		v := &manifest.ValueLogMeta{Bucket: genBucket(t), FileID: genFid(t), Offset: genU64().Draw(t, "vu-off"),
			Valid: rapid.Bool().Draw(t, "vu-valid")}
		if !v.Valid && v.Offset != 0 && pbt.Open("C15-F1") {
			// open finding C15-F1: an invalid value-log entry loses its offset in a snapshot rewrite
			v.Offset = 0
			s.exclV++
		}
		return E{T: uint8(manifest.EditUpdateValueLog), V: v}
	case 6:
		g := rapid.Uint64Range(0, 3).Draw(t, "raft-group")
		if rapid.IntRange(0, 19).Draw(t, "raft-group-rare") == 0 {
			g = rapid.SampledFrom(u64Edges).Draw(t, "raft-group-big")
		}
		// truncation fields from a small domain so that LogRaftTruncate meets "already matches"
		small := rapid.OneOf(rapid.Uint64Range(0, 3), genU64())
		return E{T: uint8(manifest.EditRaftPointer), R: &manifest.RaftLogPointer{
			GroupID: g, Segment: genU32().Draw(t, "r-seg"), Offset: genU64().Draw(t, "r-off"),
			AppliedIndex: genU64().Draw(t, "r-ai"), AppliedTerm: genU64().Draw(t, "r-at"),
			Committed: genU64().Draw(t, "r-c"), SnapshotIndex: genU64().Draw(t, "r-si"), SnapshotTerm: genU64().Draw(t, "r-st"),
			TruncatedIndex: small.Draw(t, "r-ti"), TruncatedTerm: small.Draw(t, "r-tt"),
			SegmentIndex: small.Draw(t, "r-sx"), TruncatedOffset: small.Draw(t, "r-to"),
		}}
	case 7:
		return E{T: uint8(manifest.EditRegion), G: &manifest.RegionEdit{Meta: genRegion(t)}}
	default:
		return E{T: uint8(manifest.EditRegion), G: &manifest.RegionEdit{Meta: manifest.RegionMeta{ID: genRegionID(t)}, Delete: true}}
	}
}

func genRegionID(t *rapid.T) uint64 {
	if rapid.IntRange(0, 19).Draw(t, "region-rare") == 0 {
		return rapid.SampledFrom(u64Edges).Draw(t, "region-big")
	}
	return rapid.Uint64Range(0, 4).Draw(t, "region")
}

func genRegion(t *rapid.T) manifest.RegionMeta {
	m := manifest.RegionMeta{
		ID: genRegionID(t), StartKey: genKey(t, "start"), EndKey: genKey(t, "end"),
		Epoch: manifest.RegionEpoch{Version: genU64().Draw(t, "ev"), ConfVersion: genU64().Draw(t, "ecv")},
		State: manifest.RegionState(rapid.SampledFrom([]uint8{0, 1, 2, 3, 4, 255}).Draw(t, "rstate")),
	}
	n := rapid.IntRange(0, 4).Draw(t, "npeers")
	for i := 0; i < n; i++ {
		m.Peers = append(m.Peers, manifest.PeerMeta{StoreID: genU64().Draw(t, "ps"), PeerID: genU64().Draw(t, "pp")})
	}
	return m
}

func genTrunc(t *rapid.T) *Trunc {
	return &Trunc{
		Group:   rapid.Uint64Range(0, 3).Draw(t, "t-group"),
		Index:   rapid.SampledFrom([]uint64{0, 1, 2, 5}).Draw(t, "t-index"),
		Term:    rapid.SampledFrom([]uint64{0, 1, 2}).Draw(t, "t-term"),
		Segment: rapid.SampledFrom([]uint32{0, 1, 2}).Draw(t, "t-seg"),
		Offset:  rapid.SampledFrom([]uint64{0, 8, 16}).Draw(t, "t-off"),
	}
}

var thresholds = []int64{0, 128, 1024}

const nKinds = 9 // eight edit types, region split into update / delete

// gen draws a session.  Half of the sessions start with one edit of every family in a
// drawn order (so the non-trivial rule is met by construction), then free ops follow.
func gen(t *rapid.T) Case {
	c := Case{Threshold: rapid.SampledFrom(thresholds).Draw(t, "threshold")}
	s := &genState{files: map[uint64]int{}}
	var ops []Op
	if rapid.Bool().Draw(t, "cover-all") {
		for _, k := range rapid.Permutation([]int{0, 1, 2, 3, 4, 5, 6, 7, 8}).Draw(t, "order") {
			if k == 1 && len(s.files) == 0 {
				ops = append(ops, Op{K: "log", Edits: []E{s.genAdd(t)}})
			}
			kind := "log"
			if rapid.Bool().Draw(t, "via") {
				kind = "via"
			}
			ops = append(ops, Op{K: kind, Edits: []E{s.genEditOf(t, k)}})
		}
	}
	n := rapid.IntRange(1, 30).Draw(t, "nops")
	for i := 0; i < n; i++ {
		switch rapid.SampledFrom([]string{"log", "log", "log", "log", "log", "via", "via", "via", "batch", "batch", "batch",
			"move", "trunc", "trunc", "rewrite", "thresh", "reopen"}).Draw(t, "op") {
		case "log":
			ops = append(ops, Op{K: "log", Edits: []E{s.genEditOf(t, rapid.IntRange(0, nKinds-1).Draw(t, "kind"))}})
		case "via":
			ops = append(ops, Op{K: "via", Edits: []E{s.genEditOf(t, rapid.IntRange(2, nKinds-1).Draw(t, "kind"))}})
		case "batch":
			m := rapid.IntRange(2, 6).Draw(t, "batch-n")
			var es []E
			for j := 0; j < m; j++ {
				es = append(es, s.genEditOf(t, rapid.IntRange(0, nKinds-1).Draw(t, "kind")))
			}
			ops = append(ops, Op{K: "log", Edits: es})
		case "move": // Delete(L,id) + Add(L',id) in one batch, the compaction "move" shape
			live := s.liveIDs()
			if len(live) == 0 {
				ops = append(ops, Op{K: "log", Edits: []E{s.genAdd(t)}})
				continue
			}
			id := rapid.SampledFrom(live).Draw(t, "mv-id")
			from := s.files[id]
			to := genLevel(t)
			s.files[id] = to
			ops = append(ops, Op{K: "log", Edits: []E{
				{T: uint8(manifest.EditDeleteFile), F: &manifest.FileMeta{Level: from, FileID: id}},
				{T: uint8(manifest.EditAddFile), F: genFileMeta(t, to, id)},
			}})
		case "trunc":
			ops = append(ops, Op{K: "trunc", Trunc: genTrunc(t)})
		case "rewrite":
			ops = append(ops, Op{K: "rewrite"})
		case "thresh":
			ops = append(ops, Op{K: "thresh", Thresh: rapid.SampledFrom(thresholds).Draw(t, "thresh")})
		case "reopen":
			ops = append(ops, Op{K: "reopen"})
		}
	}
	c.Ops = ops
	c.Excl = s.exclV
	return c
}

// genReal draws a session and the capture point at which the victim process kills itself.
func genReal(t *rapid.T) RealCase {
	return RealCase{Session: gen(t), At: rapid.IntRange(0, 1<<20).Draw(t, "at")}
}
