// C15 — manifest reload equals in-memory state across rewrites and crashes.
//
// Two specs over the same generated sessions (all eight edit types with generated field
// values, LogEdits batches, typed wrappers, LogRaftTruncate, SetRewriteThreshold in
// {0,128,1024}, forced Rewrite(), Close/Verify/Open in the middle):
//
//	reload  oracle (i): after every call a copy of the directory is Verify+Open-ed and its
//	        Current() must equal the live manager's Current(); at every "reopen" op and at the end
//	        the live manager itself goes through Close + manifest.Verify + manifest.Open.
//	crash   oracle (ii): the session runs on the vfsx shim; after every mutating FS operation,
//	        at torn prefixes of every Write/WriteFile payload and at every call boundary the
//	        directory is copied (= kill -9 image); each image must Verify+Open to the reference
//	        model's state after a prefix p of the edit list with acked <= p <= acked+inflight.
//
// Versions are compared in a canonical form: levels as sets keyed by file id, all other
// fields exactly (byte slices by content).
package c15

import (
	"errors"
	"fmt"
	"os"
	"path/filepath"
	"testing"

	"github.com/feichai0017/NoKV/manifest"
	"github.com/feichai0017/NoKV/vfs"
	"nokvverif/internal/pbt"
	"nokvverif/internal/vfsx"
)

func TestMain(m *testing.M) {
	ChildMain() // crash victim of spec realcrash: never returns
	pbt.RunMain(m)
}

// ---------------------------------------------------------------------------
// executing one op against a manager

func callOp(mgr *manifest.Manager, op Op) error {
	switch op.K {
	case "log":
		if len(op.Edits) == 1 {
			return mgr.LogEdit(op.Edits[0].edit())
		}
		es := make([]manifest.Edit, len(op.Edits))
		for i, e := range op.Edits {
			es[i] = e.edit()
		}
		return mgr.LogEdits(es...)
	case "via":
		e := op.Edits[0]
		switch manifest.EditType(e.T) {
		case manifest.EditValueLogHead:
			return mgr.LogValueLogHead(e.V.Bucket, e.V.FileID, e.V.Offset)
		case manifest.EditDeleteValueLog:
			return mgr.LogValueLogDelete(e.V.Bucket, e.V.FileID)
		case manifest.EditUpdateValueLog:
			return mgr.LogValueLogUpdate(*e.V)
		case manifest.EditRaftPointer:
			return mgr.LogRaftPointer(*e.R)
		case manifest.EditRegion:
			if e.G.Delete {
				return mgr.LogRegionDelete(e.G.Meta.ID)
			}
			return mgr.LogRegionUpdate(manifest.CloneRegionMeta(e.G.Meta))
		}
		return mgr.LogEdit(e.edit())
	case "trunc":
		t := op.Trunc
		return mgr.LogRaftTruncate(t.Group, t.Index, t.Term, t.Segment, t.Offset)
	case "rewrite":
		return mgr.Rewrite()
	case "thresh":
		mgr.SetRewriteThreshold(op.Thresh)
		return nil
	}
	return fmt.Errorf("harness: unknown op kind %q", op.K)
}

// verifyOpen is what the engine does on start-up (db.go runRecoveryChecks, then lsm opens
// the manifest): Verify, tolerate a missing CURRENT, Open.
func verifyOpen(dir string, fs vfs.FS) (*manifest.Manager, error) {
	if err := manifest.Verify(dir, fs); err != nil && !errors.Is(err, os.ErrNotExist) {
		return nil, fmt.Errorf("manifest.Verify: %w", err)
	}
	m, err := manifest.Open(dir, fs)
	if err != nil {
		return nil, fmt.Errorf("manifest.Open: %w", err)
	}
	return m, nil
}

func readCurrent(dir string) string {
	b, _ := os.ReadFile(filepath.Join(dir, "CURRENT"))
	return string(b)
}

func validate(c Case) error {
	for i, op := range c.Ops {
		switch op.K {
		case "log", "via":
			if len(op.Edits) == 0 || (op.K == "via" && len(op.Edits) != 1) {
				return fmt.Errorf("harness: op %d has a bad edit count", i)
			}
			for _, e := range op.Edits {
				ok := false
				switch manifest.EditType(e.T) {
				case manifest.EditAddFile, manifest.EditDeleteFile:
					ok = e.F != nil && e.F.Level >= 0
				case manifest.EditLogPointer:
					ok = true
				case manifest.EditValueLogHead, manifest.EditDeleteValueLog, manifest.EditUpdateValueLog:
					ok = e.V != nil
				case manifest.EditRaftPointer:
					ok = e.R != nil
				case manifest.EditRegion:
					ok = e.G != nil
				}
				if !ok {
					return fmt.Errorf("harness: op %d carries an edit without the payload of its type", i)
				}
			}
		case "trunc":
			if op.Trunc == nil {
				return fmt.Errorf("harness: op %d trunc without arguments", i)
			}
		case "rewrite", "thresh", "reopen":
		default:
			return fmt.Errorf("harness: op %d unknown kind %q", i, op.K)
		}
	}
	return nil
}

func labelCase(c Case, r *pbt.Rec, fams map[string]int) {
	for f, n := range fams {
		r.LabelN("edit:"+f, n)
	}
	for _, op := range c.Ops {
		switch {
		case op.K == "log" && len(op.Edits) > 1:
			r.Label("op:batch")
		default:
			r.Label("op:" + op.K)
		}
	}
	r.Label(fmt.Sprintf("threshold0:%d", c.Threshold))
	r.Excluded(c.Excl)
}

func allFamiliesPresent(fams map[string]int) bool {
	for _, f := range allFamilies {
		if fams[f] == 0 {
			return false
		}
	}
	return true
}

// ---------------------------------------------------------------------------
// spec "reload": oracle (i)

func runReload(c Case, r *pbt.Rec) error {
	if err := validate(c); err != nil {
		return err
	}
	plans, states, fams := expect(c)
	labelCase(c, r, fams)
	dir, cleanup := pbt.TempDir("c15r")
	defer cleanup()
	img := dir + "-img"
	defer os.RemoveAll(img)

	mgr, err := verifyOpen(dir, nil)
	if err != nil {
		return pbt.Failf("open-fails", "fresh directory: %v", err)
	}
	defer func() { _ = mgr.Close() }()
	threshold := c.Threshold
	mgr.SetRewriteThreshold(threshold)
	autoRewrites, forcedRewrites, reopens := 0, 0, 0

	sideReload := func(at string) error {
		_ = os.RemoveAll(img)
		if err := vfsx.CopyDir(dir, img); err != nil {
			return fmt.Errorf("harness: copy: %v", err)
		}
		m2, err := verifyOpen(img, nil)
		if err != nil {
			return pbt.Failf("reload-fails", "%s: directory does not reopen: %v", at, err)
		}
		got := canon(m2.Current())
		_ = m2.Close()
		if mem := canon(mgr.Current()); got != mem {
			return pbt.Failf("reload-differs", "%s: state reloaded from a copy of the directory differs from Current():\n%s", at, diff(mem, got, "memory", "reloaded"))
		}
		return nil
	}
	reopen := func(at string) error {
		before := canon(mgr.Current())
		if err := mgr.Close(); err != nil {
			return pbt.Failf("close-fails", "%s: Close: %v", at, err)
		}
		m2, err := verifyOpen(dir, nil)
		if err != nil {
			return pbt.Failf("reload-fails", "%s: after Close: %v", at, err)
		}
		mgr = m2
		mgr.SetRewriteThreshold(threshold)
		if after := canon(mgr.Current()); after != before {
			return pbt.Failf("reload-differs", "%s: Current() after Close+Verify+Open differs from Current() before:\n%s", at, diff(before, after, "before", "after"))
		}
		return nil
	}

	for i, op := range c.Ops {
		at := fmt.Sprintf("op %d (%s)", i, op.K)
		if op.K == "reopen" {
			reopens++
			if err := reopen(at); err != nil {
				return err
			}
			continue
		}
		cur := readCurrent(dir)
		err := callOp(mgr, op)
		if op.K == "thresh" {
			threshold = op.Thresh
		}
		if plans[i].wantErr {
			if err == nil {
				return pbt.Failf("harness-model-divergence", "%s: expected an error (group id 0), got nil", at)
			}
		} else if err != nil {
			return pbt.Failf("edit-fails", "%s returned %v", at, err)
		}
		if now := readCurrent(dir); now != cur {
			if op.K == "rewrite" {
				forcedRewrites++
			} else {
				autoRewrites++
			}
		}
		// the reference model and the in-memory state must agree, otherwise "state after a
		// prefix of the edits" (oracle ii) would not be well defined
		if mem, want := canon(mgr.Current()), states[plans[i].start+plans[i].n]; mem != want {
			return pbt.Failf("harness-model-divergence", "%s: Current() differs from the reference model:\n%s", at, diff(want, mem, "model", "memory"))
		}
		if err := sideReload(at); err != nil {
			return err
		}
	}
	if err := reopen("end of session"); err != nil {
		return err
	}
	r.LabelN("rewrite:auto", autoRewrites)
	r.LabelN("rewrite:forced", forcedRewrites)
	r.LabelN("reopen", reopens+1)
	r.LabelN("prefix-reloads", len(c.Ops)-reopens)
	if autoRewrites > 0 {
		r.Label("case:auto-rewrite")
	}
	if autoRewrites > 0 && allFamiliesPresent(fams) {
		r.NT()
	}
	return nil
}

// ---------------------------------------------------------------------------

func TestCheck(t *testing.T) {
	s := &pbt.Suite{ID: "C15", Level: "fault_enumeration",
		Rule: "Sessions: 1-40 calls over all eight edit types (region split in update/delete) with boundary-heavy field values, " +
			"LogEdits batches (2-6 edits, incl. Delete+Add moves), typed wrappers, LogRaftTruncate, SetRewriteThreshold in {0,128,1024}, forced Rewrite(), " +
			"Close+Verify+Open in the middle. spec reload (exploration): after EVERY call a copy of the directory is Verify+Open-ed and compared with Current(); " +
			"the live manager is Close+Verify+Open-ed at drawn points and at the end. spec crash (fault_enumeration, exhaustive per session over FS operation indices): " +
			"an image is taken before the first FS operation, after every mutating FS operation (non-mutating ones leave the bytes unchanged and are covered by the previous image), " +
			"at torn prefixes of every Write/WriteFile payload (quick: every byte for payloads <= 32 B, else the prefixes around frame boundaries, six tears for snapshot bodies and three for the temp CURRENT; thorough: every byte) " +
			"and at every call boundary (acknowledged count raised); each image must Verify+Open to the reference-model state after a prefix p of the flat edit list, " +
			"acked <= p <= acked+inflight; every third image additionally gets one more edit (alternately with a forced rewrite) and must reload to its own memory state. " +
			"Non-trivial: reload = session with >= 1 automatic rewrite and >= 1 edit of each of the nine families; crash = the same plus >= 1 image taken between the temp-CURRENT write and its rename inside a rewrite. " +
			"Distinct by case content.",
		Assumptions: []string{
			"crash = process death (kill -9): file contents written through vfs.FS survive, fsync is irrelevant; power loss (un-synced raft-pointer/region edits, missing directory fsync after the CURRENT rename) is not modelled",
			"reading of 'prefix of the edits': the flat edit list, an edit batch passed to LogEdits counts edit by edit (neither the property nor manifest docs claim batch atomicity); images showing a strict part of a batch are accepted and counted under img:partial-batch-visible",
			"levels are compared as sets keyed by file id, empty levels equal absent levels, nil byte slices equal empty ones",
			"inputs stay in the domain real callers produce: payload of the edit's type always present, live file ids unique, non-negative levels",
			"LogRaftTruncate: the pointer it derives is taken from the function's own rules (model.truncate); C15 judges only that the logged pointer is reloaded",
			"the recovery protocol is the engine's: manifest.Verify (missing CURRENT tolerated) then manifest.Open",
		},
	}
	pbt.Add(s, &pbt.Spec[Case]{Name: "reload", Gen: gen, Run: runReload, Quick: 1200, Thorough: 40000, Shards: 8})
	pbt.Add(s, &pbt.Spec[Case]{Name: "crash", Gen: gen, Run: runCrash, Quick: 264, Thorough: 1200, Shards: 12})
	pbt.Add(s, &pbt.Spec[RealCase]{Name: "realcrash", Gen: genReal, Run: runReal, Quick: 96, Thorough: 1600, Shards: 8})
	s.Main(t)
}
