//go:build verif

// C25 — commands only execute against the region that owns their keys.
//
// One real store.Store hosts region 1 = [S,E) (and, when E is bounded, its right
// neighbour region 2 = [E,+inf)) as single-voter raft groups that are leaders.
// Every request is sent through Store.ProposeCommand or Store.ReadCommand; the
// store's CommandApplier is wrapped (sim.Node) so every execution is observed.
// Reference predicate (from the statement): a request may execute only if it
// carries the target region's current epoch and every non-empty key it names
// lies in the region's range; scan results returned by ReadCommand lie in range.
package c25

import (
	"bytes"
	"encoding/hex"
	"encoding/json"
	"fmt"
	"sort"
	"strings"
	"testing"

	"github.com/feichai0017/NoKV/manifest"
	"github.com/feichai0017/NoKV/pb"
	rkv "github.com/feichai0017/NoKV/raftstore/kv"
	proto "google.golang.org/protobuf/proto"
	"nokvverif/internal/pbt"
	"nokvverif/internal/sim"
	"pgregory.net/rapid"
)

func TestMain(m *testing.M) { pbt.RunMain(m) }

// Key is a byte-string key.  JSON form: the string itself when it is printable
// ASCII, otherwise "0x"+hex (keys such as "\xff" do not survive JSON strings).
type Key string

func (k Key) MarshalJSON() ([]byte, error) {
	plain := !strings.HasPrefix(string(k), "0x")
	for i := 0; i < len(k); i++ {
		if k[i] < 0x20 || k[i] > 0x7e {
			plain = false
		}
	}
	if plain {
		return json.Marshal(string(k))
	}
	return json.Marshal("0x" + hex.EncodeToString([]byte(k)))
}

func (k *Key) UnmarshalJSON(b []byte) error {
	var s string
	if err := json.Unmarshal(b, &s); err != nil {
		return err
	}
	if strings.HasPrefix(s, "0x") {
		raw, err := hex.DecodeString(s[2:])
		if err != nil {
			return err
		}
		*k = Key(raw)
		return nil
	}
	*k = Key(s)
	return nil
}

// Case is the replayable input.
type Case struct {
	S, E Key // region 1 = [S,E); "" = unbounded.  Region 2 = [E,+inf) exists when E != "".
	// Applier: "model" = harness key/value model behind the observed applier;
	// "kv" = real NoKV DB + raftstore/kv.Apply (the wiring of raftstore/server).
	Applier string
	// Data: keys committed in the DB before the requests ("kv" only; the model has a fixed data set).
	Data []Key `json:",omitempty"`
	// SplitAt, when strictly inside (S,E), splits region 1 there before the requests
	// (region 1 = [S,SplitAt) with version+1, region 3 = [SplitAt,E)).
	SplitAt Key `json:",omitempty"`
	Reqs    []Req
}

// Req is one RaftCmdRequest.
type Req struct {
	Path   string // propose | read
	Region uint64 // 1, 2 or an unknown id
	// Epoch carried by the header relative to the target region's current epoch:
	// cur | ver+1 | ver-1 | conf+1 | conf-1 | nil | abs (Ver/Conf given)
	Epoch     string
	Ver, Conf uint64 `json:",omitempty"`
	Cmds      []Cmd
}

// Cmd is one request of the batch.
type Cmd struct {
	Kind         string // get | scan | prewrite | commit | rollback | resolve | checkstatus
	Keys         []Key
	Limit        uint32 `json:",omitempty"`
	IncludeStart bool   `json:",omitempty"`
}

const (
	storeID  = 1
	baseVer  = 5
	baseConf = 3
)

func inRange(k, s, e Key) bool { return k >= s && (e == "" || k < e) }

// ---------------------------------------------------------------- model applier

// modelData is the data set of the model applier: keys on and around every
// boundary of the static grid.
var modelData = func() []Key {
	set := map[Key]bool{}
	for _, b := range []Key{"b", "m"} {
		for _, k := range []Key{pred(b), b, succ(b)} {
			set[k] = true
		}
	}
	for _, k := range []Key{"\x00", "a", "g", "t", "\xff", "\xff\xff"} {
		set[k] = true
	}
	var out []Key
	for k := range set {
		out = append(out, k)
	}
	sort.Slice(out, func(i, j int) bool { return out[i] < out[j] })
	return out
}()

// modelApply answers like raftstore/kv.Apply would on a DB holding modelData:
// it knows nothing about regions (neither does the real one).
func modelApply(req *pb.RaftCmdRequest) (*pb.RaftCmdResponse, error) {
	resp := &pb.RaftCmdResponse{Header: req.GetHeader()}
	for _, r := range req.GetRequests() {
		switch r.GetCmdType() {
		case pb.CmdType_CMD_GET:
			k := Key(r.GetGet().GetKey())
			g := &pb.GetResponse{NotFound: true}
			for _, d := range modelData {
				if d == k {
					g = &pb.GetResponse{Value: []byte("v")}
				}
			}
			resp.Responses = append(resp.Responses, &pb.Response{Cmd: &pb.Response_Get{Get: g}})
		case pb.CmdType_CMD_SCAN:
			sc := r.GetScan()
			limit := int(sc.GetLimit())
			if limit <= 0 {
				limit = 1
			}
			out := &pb.ScanResponse{}
			for _, d := range modelData {
				if len(out.Kvs) >= limit {
					break
				}
				c := bytes.Compare([]byte(d), sc.GetStartKey())
				if c < 0 || (c == 0 && !sc.GetIncludeStart() && len(sc.GetStartKey()) > 0) {
					continue
				}
				out.Kvs = append(out.Kvs, &pb.KV{Key: []byte(d), Value: []byte("v")})
			}
			resp.Responses = append(resp.Responses, &pb.Response{Cmd: &pb.Response_Scan{Scan: out}})
		case pb.CmdType_CMD_PREWRITE:
			resp.Responses = append(resp.Responses, &pb.Response{Cmd: &pb.Response_Prewrite{Prewrite: &pb.PrewriteResponse{}}})
		case pb.CmdType_CMD_COMMIT:
			resp.Responses = append(resp.Responses, &pb.Response{Cmd: &pb.Response_Commit{Commit: &pb.CommitResponse{}}})
		case pb.CmdType_CMD_BATCH_ROLLBACK:
			resp.Responses = append(resp.Responses, &pb.Response{Cmd: &pb.Response_BatchRollback{BatchRollback: &pb.BatchRollbackResponse{}}})
		case pb.CmdType_CMD_RESOLVE_LOCK:
			resp.Responses = append(resp.Responses, &pb.Response{Cmd: &pb.Response_ResolveLock{ResolveLock: &pb.ResolveLockResponse{}}})
		case pb.CmdType_CMD_CHECK_TXN_STATUS:
			resp.Responses = append(resp.Responses, &pb.Response{Cmd: &pb.Response_CheckTxnStatus{CheckTxnStatus: &pb.CheckTxnStatusResponse{}}})
		default:
			return nil, fmt.Errorf("model: unsupported command %v", r.GetCmdType())
		}
	}
	return resp, nil
}

// ---------------------------------------------------------------- request building

func bs(k Key) []byte {
	if k == "" {
		return nil
	}
	return []byte(k)
}

func keyAt(c Cmd, i int) []byte {
	if i < len(c.Keys) {
		return bs(c.Keys[i])
	}
	return nil
}

func bsAll(ks []Key) [][]byte {
	out := make([][]byte, 0, len(ks))
	for _, k := range ks {
		out = append(out, []byte(k))
	}
	return out
}

var kinds = []string{"get", "scan", "prewrite", "commit", "rollback", "resolve", "checkstatus"}

func isReadKind(k string) bool { return k == "get" || k == "scan" }

// build converts a Cmd; ts makes every transaction of a case distinct.
func build(c Cmd, ts uint64) (*pb.Request, bool) {
	switch c.Kind {
	case "get":
		return &pb.Request{CmdType: pb.CmdType_CMD_GET, Cmd: &pb.Request_Get{Get: &pb.GetRequest{Key: keyAt(c, 0), Version: 1 << 40}}}, true
	case "scan":
		return &pb.Request{CmdType: pb.CmdType_CMD_SCAN, Cmd: &pb.Request_Scan{Scan: &pb.ScanRequest{
			StartKey: keyAt(c, 0), Limit: c.Limit, IncludeStart: c.IncludeStart, Version: 1 << 40}}}, true
	case "prewrite":
		var muts []*pb.Mutation
		for _, k := range c.Keys {
			muts = append(muts, &pb.Mutation{Op: pb.Mutation_Put, Key: []byte(k), Value: []byte("w")})
		}
		return &pb.Request{CmdType: pb.CmdType_CMD_PREWRITE, Cmd: &pb.Request_Prewrite{Prewrite: &pb.PrewriteRequest{
			Mutations: muts, PrimaryLock: keyAt(c, 0), StartVersion: ts, LockTtl: 3000}}}, true
	case "commit":
		return &pb.Request{CmdType: pb.CmdType_CMD_COMMIT, Cmd: &pb.Request_Commit{Commit: &pb.CommitRequest{
			Keys: bsAll(c.Keys), StartVersion: ts, CommitVersion: ts + 1}}}, true
	case "rollback":
		return &pb.Request{CmdType: pb.CmdType_CMD_BATCH_ROLLBACK, Cmd: &pb.Request_BatchRollback{BatchRollback: &pb.BatchRollbackRequest{
			Keys: bsAll(c.Keys), StartVersion: ts}}}, true
	case "resolve":
		return &pb.Request{CmdType: pb.CmdType_CMD_RESOLVE_LOCK, Cmd: &pb.Request_ResolveLock{ResolveLock: &pb.ResolveLockRequest{
			Keys: bsAll(c.Keys), StartVersion: ts, CommitVersion: 0}}}, true
	case "checkstatus":
		return &pb.Request{CmdType: pb.CmdType_CMD_CHECK_TXN_STATUS, Cmd: &pb.Request_CheckTxnStatus{CheckTxnStatus: &pb.CheckTxnStatusRequest{
			PrimaryKey: keyAt(c, 0), LockTs: ts, CurrentTs: ts + 1, CallerStartTs: ts + 1}}}, true
	}
	return nil, false
}

// keysOf lists the keys a built request names (read back from the protobuf, so
// the reference does not depend on how build lays them out).
func keysOf(r *pb.Request) [][]byte {
	switch r.GetCmdType() {
	case pb.CmdType_CMD_GET:
		return [][]byte{r.GetGet().GetKey()}
	case pb.CmdType_CMD_SCAN:
		return [][]byte{r.GetScan().GetStartKey()}
	case pb.CmdType_CMD_PREWRITE:
		var out [][]byte
		for _, m := range r.GetPrewrite().GetMutations() {
			out = append(out, m.GetKey())
		}
		return out
	case pb.CmdType_CMD_COMMIT:
		return r.GetCommit().GetKeys()
	case pb.CmdType_CMD_BATCH_ROLLBACK:
		return r.GetBatchRollback().GetKeys()
	case pb.CmdType_CMD_RESOLVE_LOCK:
		return r.GetResolveLock().GetKeys()
	case pb.CmdType_CMD_CHECK_TXN_STATUS:
		return [][]byte{r.GetCheckTxnStatus().GetPrimaryKey()}
	}
	return nil
}

type target struct {
	id        uint64
	s, e      Key
	ver, conf uint64 // current epoch
}

// epochFor builds the header epoch of q relative to the current epoch of its
// target region (the base epoch for an unknown region id).
func epochFor(q Req, tg *target) *pb.RegionEpoch {
	baseVer, baseConf := uint64(baseVer), uint64(baseConf)
	if tg != nil {
		baseVer, baseConf = tg.ver, tg.conf
	}
	switch q.Epoch {
	case "cur":
		return &pb.RegionEpoch{Version: baseVer, ConfVer: baseConf}
	case "ver+1":
		return &pb.RegionEpoch{Version: baseVer + 1, ConfVer: baseConf}
	case "ver-1":
		return &pb.RegionEpoch{Version: baseVer - 1, ConfVer: baseConf}
	case "conf+1":
		return &pb.RegionEpoch{Version: baseVer, ConfVer: baseConf + 1}
	case "conf-1":
		return &pb.RegionEpoch{Version: baseVer, ConfVer: baseConf - 1}
	case "abs":
		return &pb.RegionEpoch{Version: q.Ver, ConfVer: q.Conf}
	}
	return nil // "nil": no epoch in the header
}

var epochKinds = []string{"cur", "ver+1", "ver-1", "conf+1", "conf-1", "nil"}

// ---------------------------------------------------------------- run

func run(c Case, r *pbt.Rec) error {
	if c.E != "" && c.S >= c.E {
		r.Label("skip:invalid-range")
		return nil
	}
	dir, cleanup := pbt.TempDir("c25")
	defer cleanup()
	cl := sim.NewCluster()
	defer cl.Close()
	cfg := sim.NodeConfig{StoreID: storeID, Dir: dir, Storage: sim.StorageMemory, Applier: modelApply}
	if c.Applier == "kv" {
		cfg = sim.NodeConfig{StoreID: storeID, Dir: dir, Storage: sim.StorageDB}
	}
	n, err := cl.AddNode(cfg)
	if err != nil {
		return pbt.Failf("harness", "open node: %v", err)
	}
	targets := []target{{1, c.S, c.E, baseVer, baseConf}}
	if c.E != "" {
		targets = append(targets, target{2, c.E, "", baseVer, baseConf})
	}
	for _, t := range targets {
		meta := sim.SingleVoter(t.id, []byte(t.s), []byte(t.e), manifest.RegionEpoch{Version: baseVer, ConfVersion: baseConf}, storeID, 100+t.id)
		if _, err := n.StartRegion(meta); err != nil {
			return pbt.Failf("harness", "start region: %v", err)
		}
		if err := n.Campaign(t.id); err != nil {
			return pbt.Failf("harness", "campaign: %v", err)
		}
	}
	if c.SplitAt != "" && c.SplitAt > c.S && (c.E == "" || c.SplitAt < c.E) {
		// region 1 is split before the requests: it becomes [S,SplitAt) with a bumped
		// version, region 3 = [SplitAt,E) is new.  Requests still carrying region 1's
		// former epoch or keys of the split-off part must now be refused.
		child := sim.SingleVoter(3, []byte(c.SplitAt), []byte(c.E), manifest.RegionEpoch{Version: baseVer, ConfVersion: baseConf}, storeID, 103)
		cmd := &pb.AdminCommand{Type: pb.AdminCommand_SPLIT, Split: &pb.SplitCommand{ParentRegionId: 1, SplitKey: []byte(c.SplitAt),
			Child: &pb.RegionMeta{Id: 3, StartKey: child.StartKey, EndKey: child.EndKey, EpochVersion: baseVer, EpochConfVersion: baseConf,
				Peers: []*pb.RegionPeer{{StoreId: storeID, PeerId: 103}}}}}
		if err := n.Store.VerifApplyAdmin(cmd); err != nil {
			return pbt.Failf("harness", "split of region 1 at %q: %v", c.SplitAt, err)
		}
		if err := n.Campaign(3); err != nil {
			return pbt.Failf("harness", "campaign child: %v", err)
		}
		after, ok := n.Store.RegionMetaByID(1)
		if !ok {
			return pbt.Failf("harness", "region 1 vanished after split")
		}
		targets[0].e, targets[0].ver, targets[0].conf = Key(after.EndKey), after.Epoch.Version, after.Epoch.ConfVersion
		targets = append(targets, target{3, c.SplitAt, c.E, baseVer, baseConf})
		r.Label("split-before-requests")
	}
	if c.Applier == "kv" && len(c.Data) > 0 {
		// commit the data set straight through the applier (no region involved)
		var muts []*pb.Mutation
		var keys [][]byte
		seen := map[Key]bool{}
		for _, k := range c.Data {
			if k == "" || seen[k] {
				continue
			}
			seen[k] = true
			muts = append(muts, &pb.Mutation{Op: pb.Mutation_Put, Key: []byte(k), Value: []byte("v")})
			keys = append(keys, []byte(k))
		}
		if len(muts) > 0 {
			load := &pb.RaftCmdRequest{Requests: []*pb.Request{
				{CmdType: pb.CmdType_CMD_PREWRITE, Cmd: &pb.Request_Prewrite{Prewrite: &pb.PrewriteRequest{Mutations: muts, PrimaryLock: keys[0], StartVersion: 10, LockTtl: 3000}}},
				{CmdType: pb.CmdType_CMD_COMMIT, Cmd: &pb.Request_Commit{Commit: &pb.CommitRequest{Keys: keys, StartVersion: 10, CommitVersion: 11}}},
			}}
			if _, err := rkv.Apply(n.DB, load); err != nil {
				return pbt.Failf("harness", "load data: %v", err)
			}
		}
	}
	n.TakeApplies()
	r.Label("applier:" + map[bool]string{true: "kv", false: "model"}[c.Applier == "kv"])
	wedged := map[uint64]bool{}
	for i, q := range c.Reqs {
		if err := runReq(c, n, targets, wedged, i, q, r); err != nil {
			return err
		}
	}
	return nil
}

func runReq(c Case, n *sim.Node, targets []target, wedged map[uint64]bool, i int, q Req, r *pbt.Rec) error {
	if wedged[q.Region] {
		r.Label("skip:region-peer-unusable-after-applier-error")
		return nil
	}
	var reqs []*pb.Request
	for j, cmd := range q.Cmds {
		pr, ok := build(cmd, uint64(1000+100*i+10*j))
		if !ok {
			r.Label("skip:unknown-kind")
			return nil
		}
		reqs = append(reqs, pr)
	}
	if len(reqs) == 0 {
		r.Label("skip:empty-request")
		return nil
	}
	var tg *target
	for k := range targets {
		if targets[k].id == q.Region {
			tg = &targets[k]
		}
	}
	ep := epochFor(q, tg)
	epochOK := tg != nil && ep != nil && ep.GetVersion() == tg.ver && ep.GetConfVer() == tg.conf
	keysOK := true
	boundary, emptyKey := false, false
	var outside []string
	for _, pr := range reqs {
		for _, k := range keysOf(pr) {
			if len(k) == 0 {
				emptyKey = true
				continue // not a named key (proto3 cannot tell "" from absent)
			}
			if tg == nil {
				continue
			}
			if !inRange(Key(k), tg.s, tg.e) {
				keysOK = false
				outside = append(outside, fmt.Sprintf("%q", k))
			}
			if tg.e != "" && (Key(k) == tg.e || Key(k) == pred(tg.e)) {
				boundary = true
			}
		}
	}
	valid := epochOK && keysOK
	allRead := true
	for _, cmd := range q.Cmds {
		if !isReadKind(cmd.Kind) {
			allRead = false
		}
	}
	req := &pb.RaftCmdRequest{Header: &pb.CmdHeader{RegionId: q.Region, RegionEpoch: ep}, Requests: reqs}
	var (
		resp *pb.RaftCmdResponse
		err  error
	)
	if q.Path == "read" {
		// ReadCommand runs its ReadIndex round under a 3 s wall-clock context; on a machine
		// that stalls the process for that long the (already available) result can lose the
		// select against ctx.Done().  A read has no side effect, so such an answer is retried;
		// a persistent timeout is reported like any other refusal.
		for attempt := 0; attempt < 3; attempt++ {
			resp, err = n.Store.ReadCommand(proto.Clone(req).(*pb.RaftCmdRequest))
			if err == nil || !strings.Contains(err.Error(), "deadline exceeded") {
				break
			}
			r.Label("retry:read-deadline-exceeded")
			n.TakeApplies()
		}
	} else {
		resp, err = n.Store.ProposeCommand(req)
	}
	applies := n.TakeApplies()
	desc := func() string {
		tr := "unknown region"
		if tg != nil {
			tr = fmt.Sprintf("region %d [%q,%q) epoch v%d.c%d", tg.id, tg.s, tg.e, tg.ver, tg.conf)
		}
		cj, _ := json.Marshal(q)
		return fmt.Sprintf("request %d %s against %s (reference: epochOK=%v keysOK=%v outside=%v) -> err=%v regionError=%v applies=%d",
			i, cj, tr, epochOK, keysOK, outside, err, resp.GetRegionError() != nil, len(applies))
	}
	// classification labels
	for _, cmd := range q.Cmds {
		r.Label("kind:" + cmd.Kind + "/" + q.Path)
	}
	r.Label("epoch:" + q.Epoch)
	if emptyKey {
		r.Label("has-empty-key")
	}
	switch {
	case tg == nil:
		r.Label("class:unknown-region")
	case valid:
		r.Label("class:valid")
	case !epochOK && keysOK:
		r.Label("class:stale-epoch-keys-in-range")
		r.NT()
	case epochOK && !keysOK:
		r.Label("class:key-out-of-range")
	default:
		r.Label("class:both-wrong")
	}
	if boundary {
		r.Label("key-at-end-or-pred-end")
		r.NT()
	}

	if !valid {
		// must be rejected with a region error and must not reach the applier
		if len(applies) > 0 {
			return pbt.Failf("applied-invalid", "a command that fails the reference predicate was executed: %s", desc())
		}
		if err != nil {
			return pbt.Failf("rejected-without-region-error", "invalid command answered with a Go error instead of a region error: %s", desc())
		}
		if resp.GetRegionError() == nil {
			return pbt.Failf("accepted-invalid", "invalid command got no region error: %s", desc())
		}
		if len(resp.GetResponses()) > 0 {
			return pbt.Failf("accepted-invalid", "rejected command carries %d command responses: %s", len(resp.GetResponses()), desc())
		}
		return nil
	}
	// valid request
	if q.Path == "read" && !allRead {
		// refused for a reason outside this property (ReadCommand is read-only)
		r.Label("valid-write-on-read-path")
		return nil
	}
	if err != nil && resp.GetRegionError() == nil && len(applies) == 1 && applies[0].Err != nil {
		// accepted by the region and executed once; the applier itself failed (raftstore/kv:
		// "Key cannot be empty" for a get/scan... of the empty key).  On the propose path the
		// apply error leaves the peer unusable (see C24 FINDINGS, apply-error wedge): stay away from it.
		r.Label("valid:applier-error")
		if q.Path == "propose" {
			wedged[tg.id] = true
		}
		return nil
	}
	if err != nil || resp.GetRegionError() != nil {
		return pbt.Failf("rejects-valid", "a command with the current epoch and all keys in range was refused: %s", desc())
	}
	if len(applies) != 1 {
		return pbt.Failf("rejects-valid", "a valid command was answered without error but executed %d times: %s", len(applies), desc())
	}
	// the executed request names the same keys
	got := applies[0].Request
	if len(got.GetRequests()) != len(reqs) {
		return pbt.Failf("executed-differs", "executed batch has %d requests, sent %d: %s", len(got.GetRequests()), len(reqs), desc())
	}
	for j := range reqs {
		a, b := keysOf(got.GetRequests()[j]), keysOf(reqs[j])
		if len(a) != len(b) {
			return pbt.Failf("executed-differs", "executed request %d names other keys: %s", j, desc())
		}
		for x := range a {
			if !bytes.Equal(a[x], b[x]) {
				return pbt.Failf("executed-differs", "executed request %d names other keys: %s", j, desc())
			}
		}
	}
	// scan results
	for j, cmd := range q.Cmds {
		if cmd.Kind != "scan" || j >= len(resp.GetResponses()) {
			continue
		}
		kvs := resp.GetResponses()[j].GetScan().GetKvs()
		raw := 0
		if j < len(applies[0].Response.GetResponses()) {
			raw = len(applies[0].Response.GetResponses()[j].GetScan().GetKvs())
		}
		out := 0
		for _, kv := range kvs {
			if !inRange(Key(kv.GetKey()), tg.s, tg.e) {
				out++
			}
		}
		if q.Path == "read" {
			r.LabelN("scan:keys-returned", len(kvs))
			if out > 0 {
				return pbt.Failf("scan-out-of-range", "scan through region [%q,%q) returned %d key(s) outside the range (first: %q): %s",
					tg.s, tg.e, out, firstOutside(kvs, tg), desc())
			}
			if len(kvs) > 0 {
				r.Label("scan:nonempty-result")
			}
			_ = raw
		} else if out > 0 {
			// ProposeCommand does not trim; kv.Service never routes scans here (see FINDINGS.md, limits)
			r.Label("observation:scan-via-propose-untrimmed")
		}
	}
	return nil
}

func firstOutside(kvs []*pb.KV, tg *target) []byte {
	for _, kv := range kvs {
		if !inRange(Key(kv.GetKey()), tg.s, tg.e) {
			return kv.GetKey()
		}
	}
	return nil
}

// ---------------------------------------------------------------- key grid

// pred is a key just below k (k without its last byte's unit, padded with 0xff);
// succ the immediate successor.
func pred(k Key) Key {
	if k == "" {
		return ""
	}
	b := []byte(k)
	last := b[len(b)-1]
	if last == 0 {
		return Key(b[:len(b)-1])
	}
	b[len(b)-1] = last - 1
	return Key(b) + "\xff"
}

func succ(k Key) Key { return k + "\x00" }

func mid(s, e Key) Key {
	for _, k := range []Key{"g", "a", "t", "\x01"} {
		if k > s && (e == "" || k < e) {
			return k
		}
	}
	return succ(s)
}

// gridKeys is the boundary grid of the statement for region [s,e):
// {"", pred(s), s, succ(s), mid, pred(e), e, succ(e), "\xff"} without duplicates.
func gridKeys(s, e Key) []Key {
	ks := []Key{"", mid(s, e), "\xff"}
	if s != "" {
		ks = append(ks, pred(s), s, succ(s))
	}
	if e != "" {
		ks = append(ks, pred(e), e, succ(e))
	}
	seen := map[Key]bool{}
	var out []Key
	for _, k := range ks {
		if !seen[k] {
			seen[k] = true
			out = append(out, k)
		}
	}
	sort.Slice(out, func(i, j int) bool { return out[i] < out[j] })
	return out
}

var gridRegions = [][2]Key{{"", ""}, {"", "b"}, {"", "m"}, {"b", ""}, {"b", "m"}, {"m", ""}}

// enumerate is the exhaustive grid: 6 regions x {propose, read} x 6 epoch kinds x
// every command kind x every key of the grid (single-key commands), every ordered
// pair of grid keys for the multi-key kinds and for a two-get batch, scans with
// both IncludeStart values and two limits.
func enumerate() []Case {
	var out []Case
	// requests are independent of each other under the model applier, so one case
	// carries all requests of one (range, path, epoch, kind) cell: the store is built
	// once per cell instead of once per request.
	cell := map[string]int{}
	add := func(s, e Key, q Req) {
		kind := q.Cmds[0].Kind
		if len(q.Cmds) > 1 {
			kind = "batch-" + kind
		}
		id := fmt.Sprintf("%q/%q/%s/%s/%s/%d", s, e, q.Path, q.Epoch, kind, q.Region)
		i, ok := cell[id]
		if !ok {
			i = len(out)
			cell[id] = i
			out = append(out, Case{S: s, E: e, Applier: "model"})
		}
		out[i].Reqs = append(out[i].Reqs, q)
	}
	for _, re := range gridRegions {
		s, e := re[0], re[1]
		ks := gridKeys(s, e)
		for _, path := range []string{"propose", "read"} {
			for _, ep := range epochKinds {
				for _, kind := range kinds {
					if path == "read" && !isReadKind(kind) && ep != "cur" && ep != "ver-1" {
						continue // writes through ReadCommand: two epochs are enough (validation precedes the read-only test)
					}
					for _, k := range ks {
						switch kind {
						case "scan":
							for _, inc := range []bool{true, false} {
								for _, lim := range []uint32{1, 100} {
									add(s, e, Req{Path: path, Region: 1, Epoch: ep, Cmds: []Cmd{{Kind: kind, Keys: []Key{k}, Limit: lim, IncludeStart: inc}}})
								}
							}
						default:
							add(s, e, Req{Path: path, Region: 1, Epoch: ep, Cmds: []Cmd{{Kind: kind, Keys: []Key{k}}}})
						}
					}
					// two keys
					if kind == "prewrite" || kind == "commit" || kind == "rollback" || kind == "resolve" {
						if path == "read" {
							continue
						}
						for _, k1 := range ks {
							for _, k2 := range ks {
								add(s, e, Req{Path: path, Region: 1, Epoch: ep, Cmds: []Cmd{{Kind: kind, Keys: []Key{k1, k2}}}})
							}
						}
					}
					if kind == "get" { // batch get: two requests in one command
						for _, k1 := range ks {
							for _, k2 := range ks {
								add(s, e, Req{Path: path, Region: 1, Epoch: ep, Cmds: []Cmd{{Kind: "get", Keys: []Key{k1}}, {Kind: "get", Keys: []Key{k2}}}})
							}
						}
					}
				}
			}
		}
		// commands addressed to the right neighbour and to an unknown region with region 1's keys
		for _, k := range ks {
			for _, kind := range kinds {
				for _, reg := range []uint64{2, 99} {
					add(s, e, Req{Path: map[bool]string{true: "read", false: "propose"}[isReadKind(kind)], Region: reg, Epoch: "cur",
						Cmds: []Cmd{{Kind: kind, Keys: []Key{k}, Limit: 100, IncludeStart: true}}})
				}
			}
		}
	}
	return out
}

// ---------------------------------------------------------------- generators

var alphabet = []Key{"\x00", "a", "a\xff", "a\xff\xff", "b", "b\x00", "b\x00\x00", "ba", "c", "g", "l", "l\xff", "m", "m\x00", "ma", "t", "z", "\xfe", "\xff", "\xff\xff"}

func genKey(t *rapid.T, s, e Key) Key {
	switch rapid.IntRange(0, 9).Draw(t, "keyclass") {
	case 0, 1, 2:
		return rapid.SampledFrom(gridKeys(s, e)).Draw(t, "gridkey")
	case 3, 4, 5, 6:
		return rapid.SampledFrom(alphabet).Draw(t, "alpha")
	default:
		b := rapid.SliceOfN(rapid.SampledFrom([]byte{0, 'a', 'b', 'c', 'l', 'm', 'n', 0xff}), 0, 3).Draw(t, "rawkey")
		return Key(b)
	}
}

func genReq(t *rapid.T, s, e, splitAt Key) Req {
	q := Req{Region: rapid.SampledFrom([]uint64{1, 1, 1, 1, 1, 2, 2, 3, 3, 99}).Draw(t, "region")}
	q.Epoch = rapid.SampledFrom([]string{"cur", "cur", "cur", "cur", "ver+1", "ver-1", "conf+1", "conf-1", "nil", "abs"}).Draw(t, "epoch")
	if q.Epoch == "abs" {
		q.Ver = rapid.Uint64Range(baseVer-2, baseVer+2).Draw(t, "ver")
		q.Conf = rapid.Uint64Range(baseConf-2, baseConf+2).Draw(t, "conf")
	}
	ts, te := s, e
	switch {
	case q.Region == 2 && e != "":
		ts, te = e, ""
	case q.Region == 3 && splitAt != "":
		ts = splitAt
	case q.Region == 1 && splitAt != "" && rapid.IntRange(0, 2).Draw(t, "aimAtShrunk") > 0:
		te = splitAt
	}
	nc := rapid.SampledFrom([]int{1, 1, 1, 2, 3}).Draw(t, "ncmds")
	readOnly := rapid.Bool().Draw(t, "readonly")
	for i := 0; i < nc; i++ {
		var cmd Cmd
		if readOnly {
			cmd.Kind = rapid.SampledFrom([]string{"get", "scan"}).Draw(t, "kind")
		} else {
			cmd.Kind = rapid.SampledFrom(kinds).Draw(t, "kind")
		}
		nk := 1
		switch cmd.Kind {
		case "prewrite", "commit", "rollback", "resolve":
			nk = rapid.IntRange(1, 3).Draw(t, "nkeys")
		case "scan":
			cmd.Limit = rapid.SampledFrom([]uint32{0, 1, 2, 5, 100}).Draw(t, "limit")
			cmd.IncludeStart = rapid.Bool().Draw(t, "include")
		}
		for j := 0; j < nk; j++ {
			// mostly in-range keys so that multi-key commands are not almost always invalid
			if rapid.IntRange(0, 3).Draw(t, "inrange") > 0 {
				k := genKey(t, ts, te)
				if k != "" && !inRange(k, ts, te) {
					k = mid(ts, te)
				}
				cmd.Keys = append(cmd.Keys, k)
			} else {
				cmd.Keys = append(cmd.Keys, genKey(t, ts, te))
			}
		}
		q.Cmds = append(q.Cmds, cmd)
	}
	q.Path = "propose"
	if readOnly && rapid.IntRange(0, 4).Draw(t, "path") > 0 {
		q.Path = "read"
	} else if !readOnly && rapid.IntRange(0, 9).Draw(t, "path") == 0 {
		q.Path = "read"
	}
	return q
}

func genRange(t *rapid.T) (Key, Key) {
	bounds := []Key{"", "a\xff", "b", "b\x00", "g", "m", "m\x00", "\xff"}
	s := rapid.SampledFrom(bounds[:len(bounds)-1]).Draw(t, "s")
	var es []Key
	es = append(es, "")
	for _, b := range bounds {
		if b != "" && b > s {
			es = append(es, b)
		}
	}
	return s, rapid.SampledFrom(es).Draw(t, "e")
}

// genSplit draws an optional split key strictly inside (s,e).
func genSplit(t *rapid.T, s, e Key) Key {
	if rapid.IntRange(0, 2).Draw(t, "split") != 0 {
		return ""
	}
	var in []Key
	for _, k := range alphabet {
		if k > s && (e == "" || k < e) {
			in = append(in, k)
		}
	}
	if len(in) == 0 {
		return ""
	}
	return rapid.SampledFrom(in).Draw(t, "splitAt")
}

func genModel(t *rapid.T) Case {
	s, e := genRange(t)
	c := Case{S: s, E: e, Applier: "model"}
	c.SplitAt = genSplit(t, s, e)
	n := rapid.IntRange(1, 4).Draw(t, "nreqs")
	for i := 0; i < n; i++ {
		c.Reqs = append(c.Reqs, genReq(t, s, e, c.SplitAt))
	}
	return c
}

func genKV(t *rapid.T) Case {
	s, e := genRange(t)
	c := Case{S: s, E: e, Applier: "kv"}
	c.SplitAt = genSplit(t, s, e)
	c.Data = append(c.Data, modelData...)
	extra := rapid.SliceOfN(rapid.SampledFrom(alphabet), 0, 6).Draw(t, "data")
	c.Data = append(c.Data, extra...)
	n := rapid.IntRange(6, 24).Draw(t, "nreqs")
	for i := 0; i < n; i++ {
		c.Reqs = append(c.Reqs, genReq(t, s, e, c.SplitAt))
	}
	return c
}

func TestCheck(t *testing.T) {
	s := &pbt.Suite{ID: "C25", Level: "exploration", Exhaustive: false,
		Rule: "static (spec grid): region [s,e) with s,e in {\"\",b,m} (6 ranges) x {ProposeCommand, ReadCommand} x header epoch {current, version+-1, conf+-1, absent} x every command kind (get, scan, prewrite, commit, batch-rollback, resolve-lock, check-txn-status; batch-get = two gets) x every key of the boundary grid {\"\", pred(s), s, succ(s), mid, pred(e), e, succ(e), 0xff}, all ordered key pairs for multi-key kinds, plus the same keys addressed to the right neighbour region and to an unknown region id — enumerated completely against a real store.Store whose single-voter peer is leader, applier = observed harness model. gen (specs random, realkv): rapid-drawn ranges, keys (raw bytes, grid, alphabet), 1-3 commands per request, absolute epochs, two hosted regions; realkv runs request sequences against a real NoKV DB with raftstore/kv.Apply behind the observed applier. Oracle: a request failing the reference predicate (epoch equal AND every non-empty named key in [s,e)) must come back with a region error, no command responses, and no applier invocation; a request satisfying it (on the path that admits its kind) must execute exactly once with the keys sent; every key returned by a scan through ReadCommand lies in [s,e). Non-trivial = request naming a key equal to e or pred(e), or a stale/absent epoch with all keys in range; distinct by case content.",
		Assumptions: []string{
			"an empty key is 'no key' (proto3 cannot distinguish absent from empty; percolator rejects empty keys itself), so it never makes a request invalid",
			"the keys a command names are the keys it operates on: get key, scan start key, prewrite mutation keys, commit/rollback/resolve keys, check-txn-status primary key; Prewrite.primary_lock may live in another region",
			"'valid => executed' is asserted only on the path that admits the command kind (writes through ProposeCommand, reads through either) on a store that leads the region; it guards against a vacuous pass",
			"scan results are judged on ReadCommand, the only path raftstore/kv.Service uses for scans",
		},
	}
	pbt.Add(s, &pbt.Spec[Case]{Name: "grid", Run: run, Static: enumerate})
	pbt.Add(s, &pbt.Spec[Case]{Name: "random", Gen: genModel, Run: run, Quick: 8000, Thorough: 1500000, Shards: 8})
	pbt.Add(s, &pbt.Spec[Case]{Name: "realkv", Gen: genKV, Run: run, Quick: 16, Thorough: 1200, Shards: 8})
	s.Extra("static_grid_enumerated_completely", true)
	s.Main(t)
}
