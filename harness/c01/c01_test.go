// C01 — plain KV API is last-writer-wins under any background maintenance.
//
// Generator: histories of Set/Del/SetCF/DelCF/Get over a small pool of user keys in
// three column families, interleaved with generated maintenance steps (memtable
// rotation+flush, each compaction kind, value-log GC/rewrite) and clean close/reopen,
// under a generated configuration. Oracle: map (cf,key) -> last successfully written
// value / tombstone; every Get must equal it byte for byte.
package c01

import (
	"testing"

	"nokvverif/internal/pbt"
	"nokvverif/internal/plain"
	"pgregory.net/rapid"
)

func TestMain(m *testing.M) { pbt.RunMain(m) }

var profile = plain.Profile{
	Name:       "c01",
	OpKinds:    []string{"set", "set", "set", "set", "del", "del", "get", "maint", "maint", "maint", "maint", "reopen"},
	MaintKinds: []string{"rotate", "rotate", "rotate", "compact", "drain", "drain", "drain", "once", "l0l0", "rewrite", "gc"},
	ValueSizes: []int{0, 1, 1, 31, 32, 33, 33, 100, 100, 1000, 9000, 30000},
}

func gen(t *rapid.T) plain.Case { return plain.Gen(t, profile) }

func TestCheck(t *testing.T) {
	s := &pbt.Suite{ID: "C01", Level: "exploration",
		Rule: "rapid-generated histories (5..70 steps) of Set/Del/Get over <=8 user keys x 3 column families with values of 0..30000 bytes, interleaved with maintenance steps placed by the generator (rotate+flush, compaction of a drawn level in none/drain/keep ingest mode, natural picker run, L0->L0, value-log rewrite of a drawn sealed file, RunValueLogGC) and clean close/reopen; configuration (memtable engine, value threshold, 1..3 value-log buckets, value-log file size, manifest rewrite threshold, small-level sizing) drawn per case; background compaction paused so maintenance happens exactly where the history says. Oracle: map of last successful write per (cf,key); the written key is read after every write, all keys after every maintenance step/reopen, every 8 steps and at the end. Non-trivial = a read of a key that was overwritten or deleted at least once with >=1 flush and >=1 later compaction/GC step between its last write and the read; distinct by case content.",
		Assumptions: []string{"single client goroutine; maintenance is synchronous (schedules = generated positions), true thread interleavings are covered by C34",
			"expiry is not reachable through the plain Set/Del API of this version (no TTL parameter), so expiry is exercised in C06/C12 through transactions"},
	}
	pbt.Add(s, &pbt.Spec[plain.Case]{Name: "history", Gen: gen, Run: plain.Run, Quick: 400, Thorough: 30000, Shards: 16})
	s.Main(t)
}
