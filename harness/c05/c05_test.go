// C05 — a transaction never sees another transaction partially or late.
//
// Real goroutines (committers and readers) run under the deterministic cooperative
// scheduler (internal/sched); they park at the verif yield points inside the
// timestamp oracle and the watermark (orc.readTs.*, orc.commitTs.afterAlloc,
// orc.doneCommit, wm.*) and at script yield points between calls. The schedule is a
// choice sequence stored in the case. Oracle over the observed history: every read of
// a reader equals the snapshot at its read timestamp (writer with the greatest commit
// version <= ReadTs, versions taken from an all-versions scan afterwards), which
// implies repeatable reads and all-or-nothing visibility of each writer's three keys.
package c05

import (
	"bytes"
	"errors"
	"fmt"
	"os"
	"os/exec"
	"runtime"
	"strings"
	"sync"
	"testing"
	"time"

	NoKV "github.com/feichai0017/NoKV"
	"github.com/feichai0017/NoKV/utils"
	"nokvverif/internal/eng"
	"nokvverif/internal/pbt"
	"nokvverif/internal/sched"
	"pgregory.net/rapid"
)

func TestMain(m *testing.M) {
	runtime.GOMAXPROCS(4)
	pbt.RunMain(m)
}

type Case struct {
	Writers int
	Readers int
	Shared  bool  // all committers write the same three keys
	ParkWM  bool  // also park at the watermark's internal yield points
	Free    bool  // free-running (no scheduler): stress variant
	Sched   []int // choice sequence
}

// every committer writes its own three keys (group g: g.k1 g.k2 g.k3) - a commit that
// becomes visible late is then not masked by a newer commit of another writer - plus,
// in "shared" cases, all write the same three keys (newest-wins dimension).
func groupKeys(g int) [][]byte {
	return [][]byte{[]byte(fmt.Sprintf("g%d.k1", g)), []byte(fmt.Sprintf("g%d.k2", g)), []byte(fmt.Sprintf("g%d.k3", g))}
}

func gen(t *rapid.T) Case {
	return Case{
		Writers: rapid.IntRange(1, 3).Draw(t, "writers"),
		Readers: rapid.IntRange(1, 3).Draw(t, "readers"),
		Shared:  rapid.IntRange(0, 3).Draw(t, "shared") == 0,
		ParkWM:  rapid.Bool().Draw(t, "parkwm"),
		Sched:   genBursts(t),
	}
}

// genBursts draws the schedule as bursts (the same choice repeated 1..14 times): a
// choice picks runnable[v mod n], so a burst lets one worker run several steps in a row
// while the others stay parked - the shape needed to drive a reader through its whole
// script while a committer sits between timestamp allocation and commit.
func genBursts(t *rapid.T) []int {
	var out []int
	n := rapid.IntRange(0, 30).Draw(t, "nbursts")
	for i := 0; i < n; i++ {
		v := rapid.IntRange(0, 5).Draw(t, "who")
		k := rapid.IntRange(1, 14).Draw(t, "len")
		for j := 0; j < k; j++ {
			out = append(out, v)
		}
	}
	return out
}

func genFree(t *rapid.T) Case {
	return Case{Writers: rapid.IntRange(2, 4).Draw(t, "writers"), Readers: rapid.IntRange(2, 4).Draw(t, "readers"), Free: true, Shared: rapid.Bool().Draw(t, "shared"),
		Sched: []int{rapid.IntRange(1, 40).Draw(t, "rounds")}}
}

type obs struct {
	pass int
	grp  int
	key  int
	tag  int // -1 = not found
	via  string
}

type reader struct {
	readTs uint64
	seen   []obs
	err    error
}

func tagOf(v []byte) int {
	var n int
	if _, err := fmt.Sscanf(string(v), "w%d", &n); err != nil {
		return -2
	}
	return n
}

// run retries a case whose scheduler run ended in a harness problem (a worker that could
// not be torn down / a step that timed out while the machine is overloaded): only a
// problem that shows in three executions from scratch is reported (as inconclusive).
func run(c Case, r *pbt.Rec) error {
	var err error
	for attempt := 0; attempt < 3; attempt++ {
		err = runAttempt(c, r)
		var f *pbt.Fail
		if err == nil || !errors.As(err, &f) || f.Sig != "harness" {
			return err
		}
		r.Label("harness-retry")
	}
	return err
}

func runAttempt(c Case, r *pbt.Rec) error {
	dir, cleanup := pbt.TempDir("c05")
	defer cleanup()
	cfg := eng.Cfg{Engine: "skiplist", ValueThreshold: 1 << 20, Buckets: 1, VlogFileSize: 1 << 20, MemTableSize: 8 << 20}
	db, err := eng.Open(cfg, dir, nil)
	if err != nil {
		return pbt.Failf("open", "%v", err)
	}
	defer func() { _ = eng.Close(db) }()
	rounds := 1
	if c.Free && len(c.Sched) > 0 {
		rounds = c.Sched[0]
	}
	for round := 0; round < rounds; round++ {
		if err := oneRound(c, r, db, round); err != nil {
			return err
		}
	}
	return nil
}

func oneRound(c Case, r *pbt.Rec, db *NoKV.DB, round int) error {
	readers := make([]*reader, c.Readers)
	werrs := make([]error, c.Writers)
	base := round * 10
	writerScript := func(i int, yield func(string)) {
		tx := db.NewTransaction(true)
		yield("w.begun")
		g := i
		if c.Shared {
			g = 0
		}
		for _, k := range groupKeys(g) {
			if e := tx.Set(k, []byte(fmt.Sprintf("w%d", base+i))); e != nil {
				werrs[i] = e
				tx.Discard()
				return
			}
		}
		yield("w.beforeCommit")
		werrs[i] = tx.Commit()
	}
	readerScript := func(i int, yield func(string)) {
		rd := &reader{}
		readers[i] = rd
		yield("r.start")
		tx := db.NewTransaction(false)
		defer tx.Discard()
		rd.readTs = tx.ReadTs()
		groups := c.Writers
		if c.Shared {
			groups = 1
		}
		for pass := 0; pass < 2; pass++ {
			for g := 0; g < groups; g++ {
				for ki, k := range groupKeys(g) {
					yield("r.beforeGet")
					item, e := tx.Get(k)
					switch {
					case errors.Is(e, utils.ErrKeyNotFound):
						rd.seen = append(rd.seen, obs{pass, g, ki, -1, "get"})
					case e != nil:
						rd.err = e
						return
					default:
						rd.seen = append(rd.seen, obs{pass, g, ki, tagOf(item.Entry().Value), "get"})
					}
				}
			}
			yield("r.beforeIter")
			it := tx.NewIterator(NoKV.IteratorOptions{})
			found := map[[2]int]bool{}
			for it.Rewind(); it.Valid(); it.Next() {
				e := it.Item().Entry()
				for g := 0; g < groups; g++ {
					for ki, k := range groupKeys(g) {
						if bytes.Equal(e.Key, k) {
							found[[2]int{g, ki}] = true
							rd.seen = append(rd.seen, obs{pass, g, ki, tagOf(e.Value), "iter"})
						}
					}
				}
			}
			it.Close()
			for g := 0; g < groups; g++ {
				for ki := range groupKeys(g) {
					if !found[[2]int{g, ki}] {
						rd.seen = append(rd.seen, obs{pass, g, ki, -1, "iter"})
					}
				}
			}
		}
	}

	trace := ""
	ntSeen := false
	if c.Free {
		var wg sync.WaitGroup
		for i := 0; i < c.Writers; i++ {
			wg.Add(1)
			go func(i int) { defer wg.Done(); writerScript(i, func(string) { runtime.Gosched() }) }(i)
		}
		for i := 0; i < c.Readers; i++ {
			wg.Add(1)
			go func(i int) { defer wg.Done(); readerScript(i, func(string) { runtime.Gosched() }) }(i)
		}
		wg.Wait()
		ntSeen = true
	} else {
		lastTo := map[int]string{}
		isWriter := map[int]bool{}
		s := sched.New(sched.Config{
			Choices: c.Sched,
			Filter: func(label string) bool {
				return strings.HasPrefix(label, "orc.") || label == "txn.commit.beforeSend" || (c.ParkWM && strings.HasPrefix(label, "wm."))
			},
			AfterStep: func(st sched.Step) error {
				// a reader took a step inside readTs() while some writer sits between its
				// timestamp allocation and the end of its commit
				if !isWriter[st.Worker] && strings.HasPrefix(st.From, "orc.readTs") {
					for w, to := range lastTo {
						if isWriter[w] && (to == "orc.commitTs.afterAlloc" || to == "txn.commit.beforeSend" || to == "orc.doneCommit" || strings.HasPrefix(to, "wm.") || to == sched.BlockedLabel) {
							ntSeen = true
						}
					}
				}
				lastTo[st.Worker] = st.To
				if strings.HasPrefix(st.To, "orc.") || strings.HasPrefix(st.To, "txn.") || st.To == sched.BlockedLabel {
					r.Label("park:" + st.To)
				}
				return nil
			},
			MaxSteps:    5000,
			HangTimeout: 15 * time.Second,
		})
		for i := 0; i < c.Writers; i++ {
			i := i
			w := s.Go(fmt.Sprintf("writer%d", i), func(w *sched.Worker) { writerScript(i, w.Yield) })
			isWriter[w.ID] = true
		}
		for i := 0; i < c.Readers; i++ {
			i := i
			s.Go(fmt.Sprintf("reader%d", i), func(w *sched.Worker) { readerScript(i, w.Yield) })
		}
		utils.SetVerifYield(s.Yield)
		res := s.Run()
		utils.SetVerifYield(nil)
		trace = res.TraceString()
		if res.Err != nil {
			return pbt.Failf("harness", "scheduler: %v (trace %s)", res.Err, trace)
		}
		if len(res.Panics) > 0 {
			return pbt.Failf("panic", "worker panicked: %s", res.Panics[0])
		}
		if res.Hung {
			return pbt.Failf("hang", "workers never finished: %v (trace %s)", res.HungAt, trace)
		}
		r.LabelN("blocked-classifications", res.BlockedSeen)
	}
	for i, e := range werrs {
		if e != nil {
			return pbt.Failf("commit-error", "writer %d: %v", i, e)
		}
	}
	// commit versions per writer tag, from an all-versions scan of k1..k3
	fin := db.NewTransaction(false)
	defer fin.Discard()
	verOf := map[int]uint64{} // tag -> version
	grpOf := map[int]int{}    // tag -> key group
	groups := c.Writers
	if c.Shared {
		groups = 1
	}
	for g := 0; g < groups; g++ {
		for ki, k := range groupKeys(g) {
			it := fin.NewKeyIterator(k, NoKV.IteratorOptions{})
			for it.Rewind(); it.Valid(); it.Next() {
				e := it.Item().Entry()
				tag := tagOf(e.Value)
				if tag/10 != round {
					continue // written in an earlier round
				}
				if v, ok := verOf[tag]; ok && v != e.Version {
					it.Close()
					return pbt.Failf("split-version", "writer w%d's keys carry different commit versions (%d and %d on %s)", tag, v, e.Version, groupKeys(g)[ki])
				}
				verOf[tag] = e.Version
				grpOf[tag] = g
			}
			it.Close()
		}
	}
	for i := 0; i < c.Writers; i++ {
		if _, ok := verOf[base+i]; !ok {
			return pbt.Failf("lost-commit", "writer w%d committed successfully but its version is not in the store", base+i)
		}
	}
	for ri, rd := range readers {
		if rd == nil {
			continue
		}
		if rd.err != nil {
			return pbt.Failf("read-error", "reader %d: %v", ri, rd.err)
		}
		for _, o := range rd.seen {
			// expected: the writer of this key group with the greatest commit version <= ReadTs
			want, wantVer := -1, uint64(0)
			for tag, v := range verOf {
				if grpOf[tag] == o.grp && v <= rd.readTs && v >= wantVer {
					want, wantVer = tag, v
				}
			}
			got := o.tag
			if got >= 0 && got/10 != round {
				got = -1 // value of an earlier round = nothing of this round visible
			}
			if got != want {
				return pbt.Failf("snapshot", "reader %d (ReadTs=%d) observed %s=%s via %s in pass %d, want %s (greatest commit version <= ReadTs among the writers of that key is %d): late or partial visibility; versions: %v; schedule trace: %s",
					ri, rd.readTs, groupKeys(o.grp)[o.key], tagStr(o.tag), o.via, o.pass, tagStr(want), wantVer, verOf, trace)
			}
		}
	}
	if ntSeen {
		r.NT()
	}
	return nil
}

func tagStr(t int) string {
	if t == -1 {
		return "<absent>"
	}
	return fmt.Sprintf("w%d", t)
}

// race-stress: the free-running variant under the race detector (thorough tier).
func runRace(c Case, r *pbt.Rec) error {
	args := []string{"test"}
	if mf := os.Getenv("VERIF_MODFLAG"); mf != "" {
		args = append(args, strings.Fields(mf)...)
	}
	args = append(args, "-race", "-tags", "verif", "-count=1", "-run", "^TestFreeChild$", "./c05")
	cmd := exec.Command("go", args...)
	cmd.Dir = ".."
	cmd.Env = append(os.Environ(), "C05_CHILD=1")
	out, err := cmd.CombinedOutput()
	if err != nil {
		return pbt.Failf("race-child", "free-running race child failed: %v\n%s", err, tail(string(out), 60))
	}
	r.NT()
	return nil
}

func tail(s string, n int) string {
	l := strings.Split(s, "\n")
	if len(l) > n {
		l = l[len(l)-n:]
	}
	return strings.Join(l, "\n")
}

func TestFreeChild(t *testing.T) {
	if os.Getenv("C05_CHILD") == "" {
		t.Skip("child of the thorough tier")
	}
	for i := 0; i < 40; i++ {
		if err := run(Case{Writers: 3, Readers: 3, Free: true, Sched: []int{25}}, &pbt.Rec{}); err != nil {
			t.Fatal(err)
		}
	}
}

func TestCheck(t *testing.T) {
	s := &pbt.Suite{ID: "C05", Level: "exploration",
		Rule: "sched: 1-3 committer goroutines (begin, set k1..k3 = tag, commit) and 1-3 reader goroutines (begin, two passes of Get k1..k3 plus a forward scan, discard) on a real database under the deterministic cooperative scheduler; workers park at the verif yield points of the timestamp oracle (after reading nextTxnTs, after the clamp, after commit-timestamp allocation inside the oracle lock, before doneCommit), optionally at the watermark's internal points, and at script points between calls; the schedule is a generated choice sequence. free: 2-4+2-4 goroutines free-running for 1-40 rounds. Oracle: commit versions per writer are taken from an all-versions scan afterwards; every observation of a reader must be the writer with the greatest commit version <= its ReadTs (absent if none) - this is repeatable read, all-or-nothing visibility and no late visibility in one statement; all three keys of a writer must carry one version. Non-trivial = schedule in which a reader takes a step inside readTs() while a committer is parked between its timestamp allocation and the completion of its commit (free: every case); distinct by case content.",
		Assumptions: []string{"interleavings are explored at yield-point granularity only (plus free-running stress and -race in the thorough tier)",
			"conflict detection is off: committers blind-write, so no commit is refused"},
	}
	pbt.Add(s, &pbt.Spec[Case]{Name: "sched", Gen: gen, Run: run, Quick: 3000, Thorough: 90000, Shards: 8})
	pbt.Add(s, &pbt.Spec[Case]{Name: "free", Gen: genFree, Run: run, Quick: 60, Thorough: 3000, Shards: 4, Nondet: true})
	if pbt.Tier() == "thorough" {
		pbt.Add(s, &pbt.Spec[Case]{Name: "race", Gen: func(t *rapid.T) Case { return Case{Free: true, Sched: []int{rapid.IntRange(1, 1).Draw(t, "x")}} }, Run: runRace, Quick: 1, Thorough: 2})
	}
	s.Main(t)
}
