// C04 — transaction commit is atomic with strictly increasing commit versions.
// Shared transactional state machine (internal/txm) with tiny batch limits and a
// hot-key write limit so Set and Commit fail in every documented way.
package c04

import (
	"testing"

	"nokvverif/internal/pbt"
	"nokvverif/internal/txm"
	"pgregory.net/rapid"
)

func TestMain(m *testing.M) { pbt.RunMain(m) }

var profile = txm.Profile{
	Name:        "c04",
	OpKinds:     []string{"begin", "get", "get", "set", "set", "set", "set", "set", "set", "del", "commit", "commit", "commit", "discard", "maint", "reopen", "iter"},
	MaintKinds:  []string{"rotate", "drain", "once"},
	ValueSizes:  []int{0, 8, 100, 600, 1500, 3000},
	MaxOps:      70,
	MaxKeys:     8,
	SmallLimits: true,
	Conflicts:   true,
	MemSizes:    []int{8 << 20, 8 << 20, 16 << 10, 32 << 10},
}

func gen(t *rapid.T) txm.Case { return txm.Gen(t, profile) }

func TestCheck(t *testing.T) {
	s := &pbt.Suite{ID: "C04", Level: "exploration",
		Rule: "rapid-generated transactional histories (5..70 steps, <=8 keys, values 0..3000 bytes) with MaxBatchCount in {4,8}, MaxBatchSize in {2048,4096} and a hot-key write limit in {0,3,6}, so Set fails with too-big/throttled and Commit fails with conflict/too-big; maintenance and reopen in between; the memtable is 8 MiB or, in half of the cases, 16/32 KiB so that commits straddle automatic memtable rotations. Oracle: after a nil Commit every write of the transaction is visible to a fresh reader at one common version (key iterator) that is greater than every earlier commit version; a transaction opened before sees none of them; after an error from Set the other writes are unaffected, after an error from Commit none of its writes is visible to any later reader (all keys re-read after every failed commit, after maintenance and after reopen). Spec bulk: 20..90 transactions of 1..6 writes against a 16..64 KiB memtable (values 1..3000 bytes, value threshold 512 or off), so commit batches straddle automatic memtable and value-log rotations; after every nil Commit its keys, and at the end / after reopen all keys, are read back. Spec sched: 2..4 workers x 1..4 transactions (own keys, optional read+write of a shared key, writes sized -3..20 bytes around the batch limit, readers) (a third of them committed through CommitWith, judged by the callback's argument) released one yield point at a time (orc.readTs.*, orc.commitTs.afterAlloc, txn.commit.beforeSend, orc.doneCommit) by a generated choice sequence; after a nil Commit a transaction begun afterwards must read every write at one version, versions of successful commits are pairwise distinct and increase in returned-before-called order, and refused transactions (conflict, too big at Set, too big after the timestamp was assigned) leave no key; non-trivial there = two commits overlapped in time and at least two succeeded. Non-trivial = history with a failed commit (any class) followed by a successful commit; distinct by case content.",
		Assumptions: []string{"commit versions are observed through a verif accessor of the timestamp oracle (next timestamp - 1 right after Commit returns; single driver goroutine)",
			"CommitWith callbacks are exercised by the sched spec only (a third of its commits); Close racing with a commit is exercised in C37/C34, not here"},
	}
	pbt.Add(s, &pbt.Spec[txm.Case]{Name: "history", Gen: gen, Run: txm.Run, Quick: 400, Thorough: 30000, Shards: 16})
	pbt.Add(s, &pbt.Spec[ioCase]{Name: "iofault", Gen: genIO, Run: runIO, Quick: 240, Thorough: 8000, Shards: 8})
	pbt.Add(s, &pbt.Spec[sCase]{Name: "sched", Gen: genSched, Run: runSched, Quick: 400, Thorough: 12000, Shards: 8})
	pbt.Add(s, &pbt.Spec[bulkCase]{Name: "bulk", Gen: genBulk, Run: runBulk, Quick: 60, Thorough: 3000, Shards: 8})
	s.Main(t)
}
