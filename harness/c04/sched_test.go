package c04

// Spec "sched": commits that overlap in time, under a harness-owned schedule.
//
// The other C04 specs drive every transaction from one goroutine: a commit is never
// in flight (timestamp assigned, writes not yet handed over or not yet acknowledged)
// while another one starts, finishes or is REFUSED.  Here 2-4 workers run scripts of
// write transactions; the cooperative scheduler (internal/sched) parks them at the
// engine's verif yield points inside Begin and Commit (orc.readTs.*,
// orc.commitTs.afterAlloc, txn.commit.beforeSend, orc.doneCommit) and releases one at
// a time following a generated choice sequence.  Three kinds of transaction:
//
//	w     writes 1-2 keys nobody else writes (so its commit version can be read back
//	      later without interference) and optionally reads+writes a shared key (so some
//	      commits fail with ErrConflict);
//	edge  one write sized from the batch limit: delta D places it below the limit
//	      (commits), inside the 12-byte window where the transaction's own size check
//	      (user key) accepts it but the write pipeline (internal key) refuses it, i.e. it
//	      fails AFTER its commit timestamp was assigned, or above the limit (Set fails);
//	ro    a reader that begins, reads and ends.
//
// A third of the w/edge transactions commit through CommitWith; the worker then waits for
// the callback, whose argument is the outcome that is judged.
//
// Oracle (the property's two sentences, judged on observed calls and returns only):
//   - Commit returned nil: a transaction begun afterwards sees every write of it, with
//     its value, all at ONE version; that version is different from the version of every
//     other successful commit and greater than the version of every commit that had
//     returned before this Commit was called; at the end the same keys still carry it.
//   - Set/Commit returned an error (conflict, too-big): at the end none of the
//     transaction's keys exists.
//
// The order "returned before called" comes from a harness counter that workers stamp;
// only one worker runs at a time, so the stamps are a total order of real events.

import (
	"bytes"
	"errors"
	"fmt"
	"sort"
	"strings"
	"sync"
	"time"

	NoKV "github.com/feichai0017/NoKV"
	"github.com/feichai0017/NoKV/utils"
	"nokvverif/internal/eng"
	"nokvverif/internal/pbt"
	"nokvverif/internal/sched"
	"pgregory.net/rapid"
)

type sOp struct {
	K      string // w | edge | ro
	NKeys  int    `json:",omitempty"` // w: own keys written (1..2)
	Shared int    `json:",omitempty"` // w: 0 = none, 1.. = read and write shared key Shared-1
	D      int    `json:",omitempty"` // edge: value length = limit - 1 - len(key) - D
	Async  bool   `json:",omitempty"` // commit through CommitWith; the worker waits for the callback
}

type sCase struct {
	Engine  string
	Workers [][]sOp
	Sched   []int
}

const sBatchLimit = 4096

func genSched(t *rapid.T) sCase {
	c := sCase{Engine: rapid.SampledFrom([]string{"skiplist", "art"}).Draw(t, "engine")}
	nw := rapid.IntRange(2, 4).Draw(t, "workers")
	kinds := []string{"w", "w", "w", "edge", "edge", "ro"}
	for w := 0; w < nw; w++ {
		n := rapid.IntRange(1, 4).Draw(t, "nops")
		var ops []sOp
		for i := 0; i < n; i++ {
			op := sOp{K: rapid.SampledFrom(kinds).Draw(t, "k")}
			switch op.K {
			case "w":
				op.NKeys = rapid.IntRange(1, 2).Draw(t, "nkeys")
				op.Shared = rapid.IntRange(0, 2).Draw(t, "shared")
			case "edge":
				// D in 1..12: accepted by Set, refused by the write pipeline; <=0: refused by Set; >12: commits
				op.D = rapid.SampledFrom([]int{-3, 0, 1, 2, 6, 11, 12, 13, 20, 4, 8}).Draw(t, "d")
			}
			if op.K != "ro" {
				op.Async = rapid.IntRange(0, 2).Draw(t, "async") == 0
			}
			ops = append(ops, op)
		}
		c.Workers = append(c.Workers, ops)
	}
	nb := rapid.IntRange(1, 14).Draw(t, "bursts")
	for b := 0; b < nb; b++ {
		who := rapid.IntRange(0, 3).Draw(t, "who")
		ln := rapid.IntRange(1, 12).Draw(t, "len")
		for i := 0; i < ln; i++ {
			c.Sched = append(c.Sched, who)
		}
	}
	return c
}

type sTxn struct {
	name       string
	keys       [][]byte
	vals       [][]byte
	start, end int // stamps of the Commit call and its return (0 = never called)
	err        error
	setErr     error
	ver        uint64 // version read back right after the commit
	seen       bool
}

func runSched(c sCase, r *pbt.Rec) error {
	var err error
	for attempt := 0; attempt < 3; attempt++ {
		err = runSchedOnce(c, r)
		var f *pbt.Fail
		if err == nil || !errors.As(err, &f) || f.Sig != "harness" {
			return err
		}
		r.Label("harness-retry")
	}
	return err
}

func runSchedOnce(c sCase, r *pbt.Rec) error {
	if len(c.Workers) == 0 {
		return nil
	}
	cfg := eng.Cfg{Engine: c.Engine, ValueThreshold: 1 << 20, Buckets: 1, MemTableSize: 8 << 20, L0Tables: 1000, DetectConflicts: true, MaxBatchSize: sBatchLimit}
	dir, cleanup := pbt.TempDir("c04sched")
	defer cleanup()
	db, err := eng.Open(cfg, dir, nil)
	if err != nil {
		return fmt.Errorf("harness: open: %v", err)
	}
	defer func() { _ = eng.Close(db) }()
	shared := func(i int) []byte { return []byte(fmt.Sprintf("shared-%d", i)) }
	for i := 0; i < 2; i++ {
		if e := db.Update(func(tx *NoKV.Txn) error { return tx.Set(shared(i), []byte("init")) }); e != nil {
			return fmt.Errorf("harness: init: %v", e)
		}
	}

	var mu sync.Mutex
	stamp := 0
	next := func() int { mu.Lock(); defer mu.Unlock(); stamp++; return stamp }
	var txns []*sTxn
	var fail error
	setFail := func(e error) {
		mu.Lock()
		if fail == nil {
			fail = e
		}
		mu.Unlock()
	}
	// readBack reads the keys of tx in a transaction begun now; called after Commit returned nil.
	readBack := func(tx *sTxn, when string) {
		e := db.View(func(rt *NoKV.Txn) error {
			var ver uint64
			for i, k := range tx.keys {
				it, ge := rt.Get(k)
				if ge != nil {
					return pbt.Failf("committed-write-not-visible", "%s: Commit of %s returned nil, but a transaction begun afterwards reads key %q: %v", when, tx.name, k, ge)
				}
				v, _ := it.ValueCopy(nil)
				if !bytes.Equal(v, tx.vals[i]) {
					return pbt.Failf("committed-write-not-visible", "%s: Commit of %s returned nil, but a transaction begun afterwards reads key %q = %d bytes %q.., want %d bytes %q..", when, tx.name, k, len(v), head(v), len(tx.vals[i]), head(tx.vals[i]))
				}
				kv, found := storedVersion(rt, k)
				if !found {
					return pbt.Failf("committed-write-not-visible", "%s: Commit of %s returned nil, but the key iterator of a transaction begun afterwards does not yield key %q", when, tx.name, k)
				}
				if i == 0 {
					ver = kv
				} else if kv != ver {
					return pbt.Failf("two-versions", "%s: the writes of %s are stored at different versions: %q at %d, %q at %d", when, tx.name, tx.keys[0], ver, k, kv)
				}
			}
			if tx.seen && tx.ver != ver {
				return pbt.Failf("version-changed", "%s: %s was read back at version %d right after its commit and is at version %d now", when, tx.name, tx.ver, ver)
			}
			tx.ver, tx.seen = ver, true
			return nil
		})
		if e != nil {
			var f *pbt.Fail
			if !errors.As(e, &f) {
				e = pbt.Failf("unexpected-error", "%s: read back of %s: %v", when, tx.name, e)
			}
			setFail(e)
		}
	}

	script := func(id int, ops []sOp) func(w *sched.Worker) {
		return func(w *sched.Worker) {
			for j, op := range ops {
				w.Yield("op")
				rec := &sTxn{name: fmt.Sprintf("w%d.%d(%s)", id, j, op.K)}
				switch op.K {
				case "ro":
					tx := db.NewTransaction(false)
					_, _ = tx.Get(shared(0))
					w.Yield("ro.open")
					tx.Discard()
					continue
				case "edge":
					k := []byte(fmt.Sprintf("edge-%d-%d", id, j))
					n := sBatchLimit - 1 - len(k) - op.D
					rec.keys, rec.vals = [][]byte{k}, [][]byte{eng.Value(id*16+j, n)}
				case "w":
					for x := 0; x < op.NKeys; x++ {
						rec.keys = append(rec.keys, []byte(fmt.Sprintf("own-%d-%d-%d", id, j, x)))
						rec.vals = append(rec.vals, eng.Value(id*64+j*4+x, 24))
					}
				}
				mu.Lock()
				txns = append(txns, rec)
				mu.Unlock()
				tx := db.NewTransaction(true)
				if op.K == "w" && op.Shared > 0 {
					if _, e := tx.Get(shared(op.Shared - 1)); e != nil {
						setFail(pbt.Failf("unexpected-error", "%s: Get shared: %v", rec.name, e))
					}
					w.Yield("w.read")
					if e := tx.Set(shared(op.Shared-1), []byte(rec.name)); e != nil {
						setFail(pbt.Failf("unexpected-error", "%s: Set shared: %v", rec.name, e))
					}
				}
				for x := range rec.keys {
					if e := tx.Set(rec.keys[x], rec.vals[x]); e != nil {
						rec.setErr = e
						break
					}
				}
				if rec.setErr != nil {
					tx.Discard()
					if !errors.Is(rec.setErr, utils.ErrTxnTooBig) {
						setFail(pbt.Failf("unexpected-error", "%s: Set: %v", rec.name, rec.setErr))
					}
					r.Label("set:too-big")
					continue
				}
				rec.start = next()
				if op.Async {
					// the callback runs on a goroutine of the engine; the outcome is what it reports
					done := make(chan error, 1)
					tx.CommitWith(func(e error) { done <- e })
					rec.err = <-done
					r.Label("commit:through-callback")
				} else {
					rec.err = tx.Commit()
				}
				rec.end = next()
				switch {
				case rec.err == nil:
					r.Label("commit:ok")
					readBack(rec, "right after the commit")
				case errors.Is(rec.err, utils.ErrConflict):
					r.Label("commit:conflict")
				case errors.Is(rec.err, utils.ErrTxnTooBig):
					r.Label("commit:too-big-after-timestamp")
				default:
					setFail(pbt.Failf("unexpected-error", "%s: Commit: %v", rec.name, rec.err))
				}
			}
		}
	}
	s := sched.New(sched.Config{
		Choices: c.Sched,
		Filter: func(label string) bool {
			return strings.HasPrefix(label, "orc.") || label == "txn.commit.beforeSend"
		},
		AfterStep: func(st sched.Step) error {
			if strings.HasPrefix(st.To, "orc.") || strings.HasPrefix(st.To, "txn.") {
				r.Label("park:" + st.To)
			}
			return nil
		},
		MaxSteps:    5000,
		HangTimeout: 15 * time.Second,
	})
	for i, ops := range c.Workers {
		s.Go(fmt.Sprintf("w%d", i), script(i, ops))
	}
	utils.SetVerifYield(s.Yield)
	res := s.Run()
	utils.SetVerifYield(nil)
	if res.Err != nil {
		return pbt.Failf("harness", "scheduler: %v (trace %s)", res.Err, res.TraceString())
	}
	if len(res.Panics) > 0 {
		return pbt.Failf("panic", "worker panicked: %s", res.Panics[0])
	}
	if res.Hung {
		return pbt.Failf("hang", "workers never finished: %v (trace %s)", res.HungAt, res.TraceString())
	}
	if fail != nil {
		var f *pbt.Fail
		if errors.As(fail, &f) {
			return pbt.Failf(f.Sig, "%s; schedule: %s", f.Msg, res.TraceString())
		}
		return fail
	}

	// end of run: committed transactions keep their version, refused ones left nothing
	var ok []*sTxn
	refusedLate, overlap := 0, false
	for _, tx := range txns {
		if tx.start > 0 && tx.err == nil {
			readBack(tx, "at the end")
			ok = append(ok, tx)
			continue
		}
		if tx.start > 0 && errors.Is(tx.err, utils.ErrTxnTooBig) {
			refusedLate++
		}
		why := tx.setErr
		if why == nil {
			why = tx.err
		}
		e := db.View(func(rt *NoKV.Txn) error {
			for _, k := range tx.keys {
				if it, ge := rt.Get(k); ge == nil {
					return pbt.Failf("failed-commit-visible", "%s reported %q, but its key %q exists at the end (%d bytes)", tx.name, why, k, len(it.Entry().Value))
				} else if !errors.Is(ge, utils.ErrKeyNotFound) {
					return pbt.Failf("unexpected-error", "final read of %q: %v", k, ge)
				}
			}
			return nil
		})
		if e != nil {
			setFail(e)
		}
	}
	if fail != nil {
		var f *pbt.Fail
		if errors.As(fail, &f) {
			return pbt.Failf(f.Sig, "%s; schedule: %s", f.Msg, res.TraceString())
		}
		return fail
	}
	sort.Slice(ok, func(i, j int) bool { return ok[i].start < ok[j].start })
	for i, y := range ok {
		for _, x := range ok[:i] {
			if x.ver == y.ver {
				return pbt.Failf("duplicate-commit-version", "%s and %s both committed (Commit returned nil) and both are stored at version %d; schedule: %s", x.name, y.name, x.ver, res.TraceString())
			}
			if x.end < y.start && y.ver <= x.ver {
				return pbt.Failf("version-order", "%s committed at version %d and had returned before Commit of %s was called, which got version %d; schedule: %s", x.name, x.ver, y.name, y.ver, res.TraceString())
			}
			if y.start < x.end {
				overlap = true
			}
		}
	}
	for _, tx := range txns {
		for _, o := range txns {
			if tx != o && tx.start > 0 && o.start > 0 && tx.start < o.start && o.start < tx.end {
				overlap = true
			}
		}
	}
	if refusedLate > 0 {
		r.Label("case:refused-after-timestamp")
	}
	if overlap {
		r.Label("case:overlapping-commits")
	}
	if overlap && len(ok) >= 2 {
		r.NT()
	}
	return nil
}

// storedVersion returns the version of the newest entry of key visible to rt, as the key
// iterator reports it (Txn.Get stamps its item with the read timestamp instead).
func storedVersion(rt *NoKV.Txn, key []byte) (uint64, bool) {
	it := rt.NewKeyIterator(key, NoKV.IteratorOptions{})
	defer it.Close()
	for it.Rewind(); it.Valid(); it.Next() {
		e := it.Item().Entry()
		if bytes.Equal(e.Key, key) {
			return e.Version, true
		}
	}
	return 0, false
}

func head(b []byte) []byte {
	if len(b) > 8 {
		return b[:8]
	}
	return b
}
