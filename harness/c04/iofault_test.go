package c04

import (
	"bytes"
	"errors"
	"fmt"
	"strings"
	"sync/atomic"

	"github.com/feichai0017/NoKV/kv"
	"github.com/feichai0017/NoKV/utils"
	"github.com/feichai0017/NoKV/vfs"
	"nokvverif/internal/eng"
	"nokvverif/internal/pbt"
	"pgregory.net/rapid"
)

// Spec "iofault": commits whose WAL write fails.  A hook on the database's file system
// fails the k-th write to a *.wal file once; transactions are large enough (hundreds of
// KiB of inline values) that the WAL's user-space buffer has to go to the file inside
// the commit.  Oracle: Commit returned nil => every write is visible to a fresh reader.
// The other direction is only stated for conflict/too-big/throttled/closed errors and is
// therefore not judged for I/O errors.

type ioTxn struct {
	Keys  []int
	Sizes []int
}

type ioCase struct {
	Engine  string
	Sync    bool
	FailNth int // which write to a .wal file fails (1-based), 0 = none
	Txns    []ioTxn
}

func genIO(t *rapid.T) ioCase {
	c := ioCase{Engine: rapid.SampledFrom([]string{"skiplist", "art"}).Draw(t, "engine"), Sync: rapid.Bool().Draw(t, "sync"),
		FailNth: rapid.IntRange(0, 4).Draw(t, "failNth")}
	n := rapid.IntRange(2, 5).Draw(t, "ntxn")
	for i := 0; i < n; i++ {
		var tx ioTxn
		k := rapid.IntRange(1, 3).Draw(t, "nkeys")
		seen := map[int]bool{}
		for j := 0; j < k; j++ {
			key := rapid.IntRange(0, 3).Draw(t, "key")
			if seen[key] {
				continue
			}
			seen[key] = true
			tx.Keys = append(tx.Keys, key)
			tx.Sizes = append(tx.Sizes, rapid.SampledFrom([]int{100, 60000, 150000, 300000}).Draw(t, "size"))
		}
		c.Txns = append(c.Txns, tx)
	}
	return c
}

var ioKeys = [][]byte{[]byte("k0"), []byte("k1"), []byte("k2"), []byte("k3")}

func runIO(c ioCase, r *pbt.Rec) error {
	dir, cleanup := pbt.TempDir("c04io")
	defer cleanup()
	var walWrites atomic.Int64
	injected := errors.New("verif: injected WAL write failure")
	fired := false
	hook := func(op vfs.Op, path string) error {
		if op == vfs.OpFileWrite && strings.HasSuffix(path, ".wal") {
			if n := walWrites.Add(1); c.FailNth > 0 && int(n) == c.FailNth {
				fired = true
				return injected
			}
		}
		return nil
	}
	cfg := eng.Cfg{Engine: c.Engine, ValueThreshold: 1 << 20, Buckets: 1, VlogFileSize: 1 << 20, MemTableSize: 8 << 20, SyncWrites: c.Sync,
		MaxBatchCount: 1000, MaxBatchSize: 64 << 20}
	db, err := eng.Open(cfg, dir, vfs.NewFaultFS(vfs.OSFS{}, hook))
	if err != nil {
		if fired {
			return nil // the fault hit the open path: not a commit
		}
		return pbt.Failf("open", "%v", err)
	}
	defer func() { _ = eng.Close(db) }()
	model := map[int][]byte{}
	failed, okAfter := false, false
	for i, tx := range c.Txns {
		t := db.NewTransaction(true)
		vals := map[int][]byte{}
		var serr error
		for j, k := range tx.Keys {
			v := eng.Value(i*8+j, tx.Sizes[j])
			vals[k] = v
			if serr = t.SetEntry(kv.NewEntry(append([]byte(nil), ioKeys[k]...), v)); serr != nil {
				break
			}
		}
		if serr != nil {
			t.Discard()
			return pbt.Failf("set-error", "txn %d: %v", i, serr)
		}
		cerr := t.Commit()
		rd := db.NewTransaction(false)
		for k, v := range vals {
			item, gerr := rd.Get(ioKeys[k])
			var got []byte
			if gerr == nil {
				got, _ = item.ValueCopy(nil)
			} else if !errors.Is(gerr, utils.ErrKeyNotFound) {
				rd.Discard()
				return pbt.Failf("get-error", "txn %d: Get(%s): %v", i, ioKeys[k], gerr)
			}
			visible := gerr == nil && bytes.Equal(got, v)
			if cerr == nil && !visible {
				rd.Discard()
				return pbt.Failf("nil-commit-not-visible", "txn %d: Commit returned nil but its write to %s (%d bytes) is not visible to a fresh reader (found=%v, %d bytes); WAL write #%d was failed by the file system", i, ioKeys[k], len(v), gerr == nil, len(got), c.FailNth)
			}
			if cerr != nil && visible {
				// The statement lists the error classes it covers (conflict, too-big, throttled,
				// closed); an I/O failure is not among them (observed on the pinned tree: a failing
				// wal.Sync after the memtable insert leaves the writes visible).  Counted, not judged.
				r.Label("io-error-commit-visible(not judged)")
			}
		}
		rd.Discard()
		if cerr == nil {
			for k, v := range vals {
				model[k] = v
			}
			r.Label("commit:ok")
			if failed {
				okAfter = true
			}
		} else {
			r.Label("commit:error")
			failed = true
		}
	}
	if fired {
		r.Label(fmt.Sprintf("fault-fired:nth=%d", c.FailNth))
	}
	if failed && okAfter || fired {
		r.NT()
	}
	return nil
}
