package c04

import (
	"bytes"
	"errors"
	"fmt"

	NoKV "github.com/feichai0017/NoKV"
	"github.com/feichai0017/NoKV/kv"
	"github.com/feichai0017/NoKV/utils"
	"nokvverif/internal/eng"
	"nokvverif/internal/pbt"
	"pgregory.net/rapid"
)

// Spec "bulk": write volume.  The history spec places rotations itself and writes a few
// KiB per case, so a commit never meets a full memtable.  Here 20..90 transactions of
// 1..6 writes (values 1..3000 bytes, deletes) run against a 16..64 KiB memtable (and the
// value log, for values above the threshold), so commit batches straddle automatic
// memtable rotations, background flushes and value-log file rotations.  Oracle, the same
// direction as everywhere in C04: Commit returned nil => a fresh transaction reads every
// write of it (checked right after the commit for its own keys, and for all keys at the
// end and after a reopen).

type bulkW struct {
	Key  int
	Size int // 0 = delete
}

type bulkCase struct {
	Engine    string
	MemSize   int
	Threshold int
	Keys      int
	Txns      [][]bulkW
	ReopenAt  int // reopen before this transaction (-1 = never)
}

func genBulk(t *rapid.T) bulkCase {
	c := bulkCase{
		Engine:    rapid.SampledFrom([]string{"skiplist", "art"}).Draw(t, "engine"),
		MemSize:   rapid.SampledFrom([]int{16 << 10, 16 << 10, 32 << 10, 64 << 10}).Draw(t, "mem"),
		Threshold: rapid.SampledFrom([]int{1 << 20, 1 << 20, 512}).Draw(t, "threshold"),
		Keys:      rapid.IntRange(8, 60).Draw(t, "keys"),
		ReopenAt:  -1,
	}
	n := rapid.IntRange(20, 90).Draw(t, "ntxn")
	if rapid.Bool().Draw(t, "reopen") {
		c.ReopenAt = rapid.IntRange(1, n-1).Draw(t, "reopenAt")
	}
	sizes := []int{1, 30, 200, 600, 600, 1500, 1500, 3000}
	for i := 0; i < n; i++ {
		k := rapid.IntRange(1, 6).Draw(t, "nw")
		seen := map[int]bool{}
		var tx []bulkW
		for j := 0; j < k; j++ {
			key := rapid.IntRange(0, c.Keys-1).Draw(t, "key")
			if seen[key] {
				continue
			}
			seen[key] = true
			w := bulkW{Key: key, Size: rapid.SampledFrom(sizes).Draw(t, "size")}
			if rapid.IntRange(0, 9).Draw(t, "del") == 0 {
				w.Size = 0
			}
			tx = append(tx, w)
		}
		c.Txns = append(c.Txns, tx)
	}
	return c
}

func bulkKey(i int) []byte { return []byte(fmt.Sprintf("bulk-%04d", i)) }

func runBulk(c bulkCase, r *pbt.Rec) error {
	if c.Keys <= 0 || len(c.Txns) == 0 {
		return nil
	}
	cfg := eng.Cfg{Engine: c.Engine, ValueThreshold: int64(c.Threshold), Buckets: 1, VlogFileSize: 64 << 10, MemTableSize: int64(c.MemSize), L0Tables: 1000}
	dir, cleanup := pbt.TempDir("c04bulk")
	defer cleanup()
	db, err := eng.Open(cfg, dir, nil)
	if err != nil {
		return fmt.Errorf("harness: open: %v", err)
	}
	defer func() {
		if db != nil {
			_ = eng.Close(db)
		}
	}()
	model := map[int][]byte{} // absent = deleted / never written
	check := func(db *NoKV.DB, keys []int, when string) error {
		tx := db.NewTransaction(false)
		defer tx.Discard()
		for _, k := range keys {
			it, gerr := tx.Get(bulkKey(k))
			want, present := model[k]
			switch {
			case gerr != nil && !errors.Is(gerr, utils.ErrKeyNotFound):
				return pbt.Failf("unreadable", "%s: Get(%q): %v", when, bulkKey(k), gerr)
			case gerr != nil && present:
				return pbt.Failf("committed-write-missing", "%s: Get(%q) = not found, but a transaction that wrote a %d-byte value to it committed (nil) and nothing deleted it since", when, bulkKey(k), len(want))
			case gerr == nil && !present:
				return pbt.Failf("committed-delete-missing", "%s: Get(%q) = %d-byte value, but the last committed write to it is a delete (or none)", when, bulkKey(k), len(it.Entry().Value))
			case gerr == nil && !bytes.Equal(it.Entry().Value, want):
				return pbt.Failf("committed-write-stale", "%s: Get(%q) returns a %d-byte value that is not the one of the last committed write (%d bytes)", when, bulkKey(k), len(it.Entry().Value), len(want))
			}
		}
		return nil
	}
	all := make([]int, c.Keys)
	for i := range all {
		all[i] = i
	}
	segBefore := db.VerifLSM().VerifLayout()
	multi := 0
	for i, txw := range c.Txns {
		if i == c.ReopenAt {
			if cerr := eng.Close(db); cerr != nil {
				db = nil
				return pbt.Failf("close", "Close: %v", cerr)
			}
			if db, err = eng.Open(cfg, dir, nil); err != nil {
				db = nil
				return pbt.Failf("reopen", "reopen after a clean close: %v", err)
			}
			if cerr := check(db, all, fmt.Sprintf("after the reopen before transaction %d", i)); cerr != nil {
				return cerr
			}
			r.Label("bulk:reopen")
		}
		tx := db.NewTransaction(true)
		var keys []int
		for j, w := range txw {
			var werr error
			if w.Size == 0 {
				werr = tx.Delete(bulkKey(w.Key))
			} else {
				werr = tx.SetEntry(kv.NewEntry(bulkKey(w.Key), eng.Value(i*8+j, w.Size)))
			}
			if werr != nil {
				tx.Discard()
				return fmt.Errorf("harness: txn %d write %d: %v", i, j, werr)
			}
			keys = append(keys, w.Key)
		}
		if cerr := tx.Commit(); cerr != nil {
			r.Label("bulk:commit-error")
			continue // the other direction is C04/history's business
		}
		for j, w := range txw {
			if w.Size == 0 {
				delete(model, w.Key)
			} else {
				model[w.Key] = eng.Value(i*8+j, w.Size)
			}
		}
		if len(txw) > 1 {
			multi++
		}
		if cerr := check(db, keys, fmt.Sprintf("right after transaction %d (%d writes) committed", i, len(txw))); cerr != nil {
			return cerr
		}
	}
	if cerr := check(db, all, "after the last transaction"); cerr != nil {
		return cerr
	}
	tables := len(db.VerifLSM().VerifLayout()) - len(segBefore)
	r.LabelN("bulk:tables-flushed", tables)
	cerr := eng.Close(db)
	db = nil
	if cerr != nil {
		return pbt.Failf("close", "Close: %v", cerr)
	}
	if db, err = eng.Open(cfg, dir, nil); err != nil {
		db = nil
		return pbt.Failf("reopen", "reopen after a clean close: %v", err)
	}
	if cerr := check(db, all, "after close and reopen"); cerr != nil {
		return cerr
	}
	if tables >= 2 && multi >= 5 {
		r.NT() // multi-write commits ran while the memtable rotated at least twice on its own
	}
	return nil
}
