// C02 — versioned reads return the newest entry at or below the requested version.
//
// Generator: histories of SetVersionedEntry/DeleteVersionedEntry/GetVersionedEntry over
// a few (cf,key) pairs with versions from a small/edge domain (repeats, out-of-order),
// with maintenance steps and reopen placed anywhere. Oracle: per (cf,key) a map
// version -> last written entry; a read at v returns the entry at max{v' <= v}
// (tombstones are returned by this API and checked via the delete bit).
package c02

import (
	"bytes"
	"errors"
	"fmt"
	"math"
	"sort"
	"testing"

	NoKV "github.com/feichai0017/NoKV"
	"github.com/feichai0017/NoKV/kv"
	"github.com/feichai0017/NoKV/utils"
	"nokvverif/internal/eng"
	"nokvverif/internal/pbt"
	"pgregory.net/rapid"
)

func TestMain(m *testing.M) { pbt.RunMain(m) }

type Op struct {
	K     string // set | del | get | maint | reopen
	CF    byte
	Key   int
	Ver   uint64
	VSize int
	M     eng.Maint
}

type Case struct {
	Cfg  eng.Cfg
	Keys [][]byte
	Ops  []Op
}

var versions = []uint64{1, 2, 3, 4, 5, 7, 9, 100, math.MaxUint64 - 1, math.MaxUint64}

func gen(t *rapid.T) Case {
	c := Case{Cfg: eng.GenCfg(t)}
	c.Cfg.MemTableSize = 8 << 20
	c.Keys = eng.KeyPool(t, 1, 4)
	if c.Cfg.Engine == "art" && (pbt.Open("C07-F7") || pbt.Open("C07-F7pad")) {
		c.Keys = prefixFree(c.Keys)
	}
	// chain mode: one or two keys with long version chains of large inline values on small
	// level/table sizes, so that one key's versions span several blocks and tables and
	// compactions have to keep a chain together
	chain := rapid.IntRange(0, 2).Draw(t, "chain") == 0
	if chain {
		c.Keys = c.Keys[:1]
		c.Cfg.ValueThreshold = 1 << 20
		c.Cfg.SmallLevels = true
	}
	inOrder := pbt.Open("C02-R1") // open finding: out-of-order versions are read first-hit-by-level
	last := map[[2]int]uint64{}
	n := rapid.IntRange(5, 60).Draw(t, "nops")
	kinds := []string{"set", "set", "set", "set", "del", "get", "get", "get", "maint", "maint", "maint", "reopen"}
	for i := 0; i < n; i++ {
		op := Op{K: rapid.SampledFrom(kinds).Draw(t, "op")}
		switch op.K {
		case "set", "del", "get":
			op.CF = byte(rapid.SampledFrom([]int{0, 0, 1, 2}).Draw(t, "cf"))
			op.Key = rapid.IntRange(0, len(c.Keys)-1).Draw(t, "key")
			op.Ver = rapid.SampledFrom(versions).Draw(t, "ver")
			if op.K == "get" && rapid.IntRange(0, 3).Draw(t, "probe") == 0 {
				op.Ver = rapid.Uint64Range(0, 12).Draw(t, "verProbe")
			}
			if op.K != "get" && !chain {
				id := [2]int{int(op.CF), op.Key}
				if inOrder && op.Ver < last[id] {
					op.Ver = last[id] // steered: versions of one key are written in non-decreasing order
				}
				if op.Ver > last[id] {
					last[id] = op.Ver
				}
			}
			if op.K == "set" {
				op.VSize = rapid.SampledFrom([]int{1, 1, 8, 31, 33, 100, 1000, 9000}).Draw(t, "vsize")
				if chain {
					op.VSize = rapid.SampledFrom([]int{1000, 4000, 9000}).Draw(t, "vsizeChain")
				}
			}
			if chain && op.K != "get" {
				op.CF = 0
				op.Ver = last[[2]int{0, op.Key}] + uint64(rapid.IntRange(0, 2).Draw(t, "dv"))
				if op.Ver == 0 {
					op.Ver = 1
				}
				last[[2]int{0, op.Key}] = op.Ver
			}
			if chain && op.K == "get" {
				op.CF = 0
				op.Ver = uint64(rapid.IntRange(0, 45).Draw(t, "gv"))
			}
		case "maint":
			op.M = eng.GenMaint(t)
			if chain {
				op.M.Kind = rapid.SampledFrom([]string{"rotate", "rotate", "compact", "compact", "once", "once"}).Draw(t, "mkChain")
			}
			if op.M.Kind == "l0l0" && pbt.Open("C01-F1b") {
				op.M.Kind = "compact"
			}
		}
		c.Ops = append(c.Ops, op)
	}
	return c
}

func prefixFree(keys [][]byte) [][]byte {
	var out [][]byte
	for _, k := range keys {
		ok := true
		for _, o := range out {
			if bytes.HasPrefix(k, o) || bytes.HasPrefix(o, k) {
				ok = false
			}
		}
		if ok {
			out = append(out, k)
		}
	}
	return out
}

type ment struct {
	val      []byte
	deleted  bool
	hist     [][]byte
	everDel  bool
	flushed  bool // a flush happened after this write
	writeIdx int
}

type mkey struct {
	cf  byte
	key string
}

func run(c Case, r *pbt.Rec) (err error) {
	if len(c.Keys) == 0 {
		return nil
	}
	dir, cleanup := pbt.TempDir("c02")
	defer cleanup()
	db, err := eng.Open(c.Cfg, dir, nil)
	if err != nil {
		return pbt.Failf("open", "%v", err)
	}
	defer func() {
		if db != nil {
			if cerr := eng.Close(db); cerr != nil && err == nil {
				err = pbt.Failf("close", "Close failed: %v", cerr)
			}
		}
	}()
	model := map[mkey]map[uint64]*ment{}
	trk := eng.NewTracker()
	f1c := pbt.Open("C01-F1c")
	r1 := pbt.Open("C02-R1")
	nt := false
	flushes := 0

	read := func(step int, cf byte, key []byte, v uint64) error {
		vers := model[mkey{cf, string(key)}]
		var best *ment
		var bestVer uint64
		var all []uint64
		for ver, e := range vers {
			all = append(all, ver)
			if ver <= v && (best == nil || ver > bestVer) {
				best, bestVer = e, ver
			}
		}
		got, gerr := db.GetVersionedEntry(kv.ColumnFamily(cf), key, v)
		if gerr != nil && !errors.Is(gerr, utils.ErrKeyNotFound) {
			return pbt.Failf("get-error", "step %d: GetVersionedEntry(cf=%d,%q,%d) unexpected error: %v", step, cf, key, v, gerr)
		}
		found := gerr == nil && got != nil
		sort.Slice(all, func(i, j int) bool { return all[i] < all[j] })
		if best == nil {
			if found {
				return pbt.Failf("phantom", "step %d: GetVersionedEntry(cf=%d,%q,%d) returned an entry (version field %d) but no version <= %d was ever written (written versions %v)", step, cf, key, v, got.Version, v, all)
			}
			return nil
		}
		if f1c && trk.Tainted(eng.IKey(cf, key, bestVer)) {
			r.Excluded(1)
			r.Label("tainted-read")
			if !found {
				return pbt.Failf("lost", "step %d: GetVersionedEntry(cf=%d,%q,%d) = not found, want version %d", step, cf, key, v, bestVer)
			}
			return nil
		}
		if !found {
			return pbt.Failf("lost", "step %d: GetVersionedEntry(cf=%d,%q,%d) = not found, want the entry written at version %d (written versions %v)", step, cf, key, v, bestVer, all)
		}
		gotDel := got.Meta&kv.BitDelete != 0
		if gotDel != best.deleted || (!gotDel && !bytes.Equal(got.Value, best.val)) {
			return pbt.Failf("wrong-version", "step %d: GetVersionedEntry(cf=%d,%q,%d) returned {deleted=%v value=%s} (version field %d), want the entry last written at version %d {deleted=%v value=%s} (written versions %v)",
				step, cf, key, v, gotDel, brief(got.Value), got.Version, bestVer, best.deleted, brief(best.val), all)
		}
		if best.flushed && len(all) >= 2 && bestVer != all[len(all)-1] {
			nt = true
		}
		return nil
	}
	fullCheck := func(step int) error {
		for mk, vers := range model {
			probes := map[uint64]bool{0: true, math.MaxUint64: true}
			for ver := range vers {
				probes[ver] = true
				if ver > 0 {
					probes[ver-1] = true
				}
				if ver < math.MaxUint64 {
					probes[ver+1] = true
				}
			}
			var ps []uint64
			for p := range probes {
				ps = append(ps, p)
			}
			sort.Slice(ps, func(i, j int) bool { return ps[i] < ps[j] })
			for _, p := range ps {
				if err := read(step, mk.cf, []byte(mk.key), p); err != nil {
					return err
				}
			}
		}
		return nil
	}
	_ = r1
	for i, op := range c.Ops {
		switch op.K {
		case "set", "del":
			key := c.Keys[op.Key%len(c.Keys)]
			mk := mkey{op.CF, string(key)}
			var val []byte
			var werr error
			if op.K == "set" {
				val = eng.Value(i, op.VSize)
				werr = db.SetVersionedEntry(kv.ColumnFamily(op.CF), key, op.Ver, val, 0)
			} else {
				werr = db.DeleteVersionedEntry(kv.ColumnFamily(op.CF), key, op.Ver)
			}
			if werr != nil {
				return pbt.Failf("write-error", "step %d: %s(cf=%d,%q,v=%d) failed: %v", i, op.K, op.CF, key, op.Ver, werr)
			}
			if model[mk] == nil {
				model[mk] = map[uint64]*ment{}
			}
			ne := &ment{val: val, deleted: op.K == "del", writeIdx: i}
			if prev := model[mk][op.Ver]; prev != nil {
				r.Label("rewrite-same-version")
			}
			model[mk][op.Ver] = ne
			trk.Wrote(eng.IKey(op.CF, key, op.Ver))
			r.Label("op:" + op.K)
			if err := read(i, op.CF, key, op.Ver); err != nil {
				return err
			}
			if err := read(i, op.CF, key, math.MaxUint64); err != nil {
				return err
			}
		case "get":
			if err := read(i, op.CF, c.Keys[op.Key%len(c.Keys)], op.Ver); err != nil {
				return err
			}
		case "maint":
			what, merr := eng.DoMaint(db, op.M, r)
			if merr != nil {
				return pbt.Failf("maint-error", "step %d: %v", i, merr)
			}
			if what != "" {
				if op.M.Kind == "rewrite" || op.M.Kind == "gc" {
					var ks []string
					for mk, vers := range model {
						for ver := range vers {
							ks = append(ks, eng.IKey(mk.cf, []byte(mk.key), ver))
						}
					}
					trk.MaybeRewrote(ks)
				}
				trk.Sync(db.VerifLSM().VerifLayout(), what == "flush")
				if what == "flush" {
					flushes++
					for _, vers := range model {
						for _, e := range vers {
							e.flushed = true
						}
					}
				}
				if err := fullCheck(i); err != nil {
					return fmt.Errorf("after %s: %w", what, err)
				}
			}
		case "reopen":
			if cerr := eng.Close(db); cerr != nil {
				db = nil
				return pbt.Failf("close", "step %d: Close failed: %v", i, cerr)
			}
			db, err = eng.Open(c.Cfg, dir, nil)
			if err != nil {
				db = nil
				return pbt.Failf("reopen", "step %d: reopen failed: %v", i, err)
			}
			trk.Sync(db.VerifLSM().VerifLayout(), false)
			r.Label("op:reopen")
			if err := fullCheck(i); err != nil {
				return fmt.Errorf("after reopen: %w", err)
			}
		}
	}
	if err := fullCheck(len(c.Ops)); err != nil {
		return err
	}
	if nt {
		r.NT()
	}
	return nil
}

func brief(b []byte) string {
	if len(b) <= 10 {
		return fmt.Sprintf("%x", b)
	}
	return fmt.Sprintf("%x…(%d bytes)", b[:10], len(b))
}

var _ = NoKV.Open

func TestCheck(t *testing.T) {
	s := &pbt.Suite{ID: "C02", Level: "exploration",
		Rule: "rapid-generated histories (5..60 steps) of SetVersionedEntry/DeleteVersionedEntry/GetVersionedEntry over <=4 user keys x 3 column families with versions from {1,2,3,4,5,7,9,100,2^64-2,2^64-1} (repeated writes of one version included) and read versions also from 0..12, interleaved with generated maintenance (flush, compactions, value-log rewrite/GC) and reopen under a generated configuration. Oracle: per (cf,key) map version -> last written entry; a read at v must return the entry at the greatest version <= v (value and delete bit), or not-found when none; after every maintenance step/reopen and at the end every key is probed at 0, 2^64-1 and every written version +-1. Non-trivial = a read whose answer is not the key's greatest version and whose answering entry has been flushed to an SST; distinct by case content.",
		Assumptions: []string{"while C02-R1 is open, versions of one (cf,key) are written in non-decreasing order (out-of-order writes are steered, first-hit-by-level lookup); equal-version rewrites stay in",
			"the Version field of the returned entry is not judged (memtable hits report the requested version); value and delete bit identify the entry",
			"equal internal keys in two ingest-buffer tables fall under the listed finding C01-F1c and are judged for presence only (layout-tracked taint)"},
	}
	pbt.Add(s, &pbt.Spec[Case]{Name: "history", Gen: gen, Run: run, Quick: 400, Thorough: 30000, Shards: 16})
	s.Main(t)
}
