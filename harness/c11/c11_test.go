// C11 — once reopened, contents change only through new writes.
// Shared crash-point machinery: internal/crash (workload on a vfsx-instrumented
// database, directory images at file-operation indices, reopen + model comparison).
package c11

import (
	"testing"

	"nokvverif/internal/crash"
	"nokvverif/internal/pbt"
	"pgregory.net/rapid"
)

func TestMain(m *testing.M) { pbt.RunMain(m) }

var profile = crash.Profile{Sync: "both", MaxOps: 24, PostN: 4, GCBias: true}

func gen(t *rapid.T) crash.Case { return crash.Gen(t, profile) }
func run(c crash.Case, r *pbt.Rec) error { return crash.Run("C11", c, r) }

func TestCheck(t *testing.T) {
	if pbt.Tier() == "thorough" {
		profile.Stride = []int{1, 1, 2, 3}
		profile.MaxOps = 40
	}
	s := &pbt.Suite{ID: "C11", Level: "fault_enumeration",
		Rule: "rapid-generated workloads (4..24 client operations: plain Set/Del or 1-4 key transactions, values 1..40000 bytes around the separation threshold, forced rotation+flush, compactions, value-log rewrite/GC, tiny manifest rewrite threshold; configuration drawn) run once on a database whose file system is the vfsx shim; a directory image (= state after kill -9) is captured after every k-th mutating file operation (k drawn from {3,5,7}; {1,2,3} in the thorough tier), after every rename/remove/truncate, optionally with the in-flight write torn at 1, len/2 and len-1 bytes, and at the final call boundary; every image is reopened and compared with the model (states after each client operation; acknowledged <= recovered <= started). Non-trivial = workload with at least one recovered image on which the maintenance schedule ran; distinct by case content.",
		Assumptions: []string{"process-crash model: the page cache survives, user-space buffers do not; power loss is out of scope (the properties say process crash)",
			"single client goroutine; acked may be under- and started over-estimated by one operation, both in the sound direction",
			"plain and transactional data live in separate databases; plain workloads do not move tables out of L0 while C01-F1c is open"},
	}
	pbt.Add(s, &pbt.Spec[crash.Case]{Name: "workload", Gen: gen, Run: run, Quick: 96, Thorough: 3000, Shards: 16})
	s.Main(t)
}
