package c32

import (
	"fmt"
	"os"
	"testing"

	"nokvverif/internal/pbt"
	"nokvverif/internal/sched"
	"pgregory.net/rapid"
)

// TestSchedulesAreDeterministic is a self-test of the harness (not part of
// vcheck): every generated case must produce the same scheduler trace when it is
// run three times.  Run by hand: C32_SELFTEST=1 go test -tags verif -run Deterministic ./c32
func TestSchedulesAreDeterministic(t *testing.T) {
	if os.Getenv("C32_SELFTEST") == "" {
		t.Skip("set C32_SELFTEST=1")
	}
	defer func() { traceSink = nil }()
	for _, mode := range []string{"serial", "free"} {
		g := rapid.Custom(genCase(mode))
		for i := 0; i < 300; i++ {
			c := g.Example(i)
			var trs []string
			traceSink = func(r *sched.Result) { trs = append(trs, fmt.Sprint(r.Trace, r.Hung, r.HungAt)) }
			for k := 0; k < 3; k++ {
				_ = run(c, &pbt.Rec{})
			}
			if trs[0] != trs[1] || trs[1] != trs[2] {
				t.Errorf("%s case %d: traces differ\n%s\n%s\n%s", mode, i, trs[0], trs[1], trs[2])
			}
		}
	}
}
