// C32 — the watermark never passes an unfinished index.
//
// Real utils.WaterMark driven by 2–4 scripted workers under the deterministic
// cooperative scheduler (internal/sched) parked at the verif yield points inside
// Begin/addIndex/tryAdvance; a reference model of begun/finished indices is the
// oracle after every scheduler step and at quiescence.  See FINDINGS.md.
package c32

import (
	"os"
	"runtime"
	"testing"

	"nokvverif/internal/pbt"
	"pgregory.net/rapid"
)

func TestMain(m *testing.M) {
	// The cooperative scheduler has one runnable goroutine at a time: a few Ps are
	// enough and keep wake-up/GC overhead low (the stress child restores all CPUs).
	if os.Getenv("C32_STRESS") == "" {
		runtime.GOMAXPROCS(4)
	}
	pbt.RunMain(m)
}

const maxBegins = 6

func genCase(mode string) func(t *rapid.T) Case {
	return func(t *rapid.T) Case {
		c := Case{Mode: mode}
		// history before the concurrent part (0 = none: rapid shrinks towards it)
		switch h := rapid.IntRange(0, 19).Draw(t, "hist"); {
		case h >= 18:
			c.Prefill = rapid.SampledFrom([]int{65530, 65535, 65536}).Draw(t, "bigprefill") // next indices cross the window end
		case h >= 16:
			c.Prefill = rapid.IntRange(1, 4).Draw(t, "prefill")
		case h >= 14:
			c.Init = rapid.SampledFrom([]uint64{1, 7, 65535, 65536, 70000}).Draw(t, "init")
		}
		if mode == "free" {
			n := rapid.IntRange(1, 4).Draw(t, "npool")
			off := uint64(0)
			for i := 0; i < n; i++ {
				off += gaps[rapid.IntRange(0, len(gaps)-1).Draw(t, "poolgap")]
				c.Pool = append(c.Pool, off)
			}
		}
		if mode == "free" && rapid.IntRange(0, 3).Draw(t, "runFragment") == 0 {
			// a run of adjacent finished indices waiting to be stepped over while one of them is
			// begun again: w0 begins p0 < p1 (< p2), finishes them from the top so that the last
			// Done finds the whole run finished; w1 (and w2) begin pool indices again.  The choice
			// sequence is "w0 for k1 steps, the others for k2 steps, then anybody".
			n := rapid.IntRange(2, 3).Draw(t, "runLen")
			c.Pool = nil
			for i := 1; i <= n; i++ {
				c.Pool = append(c.Pool, uint64(i))
			}
			var w0 []Op
			for i := 0; i < n; i++ {
				w0 = append(w0, Op{K: "begin", A: i})
			}
			for i := n - 1; i >= 0; i-- {
				w0 = append(w0, Op{K: "done", A: i}) // open handles are listed in begin order
			}
			c.Scripts = [][]Op{w0}
			others := rapid.IntRange(1, 2).Draw(t, "runOthers")
			for o := 0; o < others; o++ {
				ops := []Op{{K: "begin", A: rapid.IntRange(0, n-1).Draw(t, "rebegin")}}
				if rapid.Bool().Draw(t, "runRead") {
					ops = append(ops, Op{K: "read"})
				}
				c.Scripts = append(c.Scripts, ops)
			}
			k1 := rapid.IntRange(4, 60).Draw(t, "k1")
			k2 := rapid.IntRange(1, 30).Draw(t, "k2")
			for i := 0; i < k1; i++ {
				c.Sched = append(c.Sched, 0)
			}
			for i := 0; i < k2; i++ {
				c.Sched = append(c.Sched, rapid.IntRange(1, 2).Draw(t, "other"))
			}
			c.Sched = append(c.Sched, rapid.SliceOfN(rapid.IntRange(0, 3), 0, 30).Draw(t, "tail")...)
			return c
		}
		nw := rapid.IntRange(2, 4).Draw(t, "workers")
		begins := 0
		var kinds []string
		if mode == "free" {
			kinds = []string{"begin", "begin", "begin", "done", "done", "done", "donemany", "wait", "read"}
		} else {
			kinds = []string{"begin", "begin", "begin", "beginmany", "done", "done", "done", "donemany", "wait", "setdone", "read"}
		}
		noBegin := []string{"done", "done", "donemany", "wait", "read"}
		for w := 0; w < nw; w++ {
			nops := rapid.IntRange(1, 5).Draw(t, "nops")
			var ops []Op
			for i := 0; i < nops; i++ {
				var k string
				if begins >= maxBegins {
					k = rapid.SampledFrom(noBegin).Draw(t, "k")
				} else {
					k = rapid.SampledFrom(kinds).Draw(t, "k")
				}
				op := Op{K: k}
				switch k {
				case "begin":
					begins++
					op.A = rapid.IntRange(0, 7).Draw(t, "a")
				case "beginmany":
					op.A = rapid.IntRange(0, 7).Draw(t, "a")
					op.B = rapid.IntRange(0, 1).Draw(t, "b")
					begins += 2 + op.B
				case "done", "wait":
					op.A = rapid.IntRange(0, 5).Draw(t, "a")
				case "donemany":
					op.A = rapid.IntRange(0, 5).Draw(t, "a")
					op.B = rapid.IntRange(0, 1).Draw(t, "b")
				case "setdone":
					op.A = rapid.IntRange(0, 5).Draw(t, "a")
				}
				ops = append(ops, op)
			}
			c.Scripts = append(c.Scripts, ops)
		}
		c.Sched = rapid.SliceOfN(rapid.IntRange(0, 3), 0, 80).Draw(t, "sched")
		return c
	}
}

func TestCheck(t *testing.T) {
	s := &pbt.Suite{ID: "C32", Level: "exploration",
		Rule: "A case = 2-4 worker scripts of Begin/BeginMany/Done/DoneMany/WaitForMark/SetDoneUntil/DoneUntil over <=6 begun indices (gaps up to 70001 so that the 65536-slot window is rebuilt) plus a choice sequence; the real utils.WaterMark runs under a cooperative scheduler that parks workers at the verif yield points (wm.begin.afterLast, wm.add.afterEnsure, wm.add.afterSlot, wm.advance.beforeCAS) and releases one at a time. Oracle after every step: DoneUntil non-decreasing; DoneUntil < every index whose Begin returned (called while DoneUntil was below it) and whose Done has not been called; a returned WaitForMark(i) implies Done was called for every such index <= i; at quiescence DoneUntil has caught up with the maximal fully-done prefix. Non-trivial = a schedule in which the window is rebuilt while another worker is parked inside an operation (strongest class: between its ensureWindow and its slot update), or two workers are parked before the tryAdvance CAS at the same time; distinct by case content.",
		Assumptions: []string{
			"legal usage derived from the callers: (serial) oracle.txnMark / peer.applyMark: Begin/BeginMany serialized (oracle lock / ready loop) with strictly increasing fresh indices, Done/DoneMany from any goroutine after the Begin returned, exactly once per Begin, WaitForMark from any goroutine, SetDoneUntil only with no Begin/Done in progress and no unfinished index and never backwards; (free) oracle.readMark: Begin concurrent from any goroutine (oracle.readTs takes no lock), indices may repeat and arrive out of order, Done after the matching Begin returned",
			"an index counts as begun-and-unfinished from the return of its Begin to the call of its Done (events recorded by the scripts); a Begin called while DoneUntil was already above its index is not judged; a Begin called while DoneUntil == index only requires that the mark does not move beyond it",
			"index gaps stand for runs of indices that were begun and finished (slot value 0 either way); cases with Prefill reproduce the same states gap-free",
			"catch-up at quiescence (signature stuck) and missed wake-ups are judged from the documentation of DoneUntil/WaitForMark, the statement itself is a safety statement",
			"schedules with a blocked WaitForMark rely on goroutine wait-state detection; the oracle only judges recorded call/return events, so a divergent replay is still a real history",
		},
	}
	pbt.Add(s, &pbt.Spec[Case]{Name: "serial", Gen: genCase("serial"), Run: run, Quick: 5000, Thorough: 150000, Shards: 8, Nondet: true})
	pbt.Add(s, &pbt.Spec[Case]{Name: "free", Gen: genCase("free"), Run: run, Quick: 3000, Thorough: 90000, Shards: 8, Nondet: true})
	if pbt.Tier() == "thorough" {
		pbt.Add(s, &pbt.Spec[StressCase]{Name: "race-stress", Run: runStress, Static: stressCases, Nondet: true})
	}
	s.Main(t)
}
