package c32

import (
	"bytes"
	"context"
	"encoding/json"
	"fmt"
	"os"
	"os/exec"
	"regexp"
	"runtime"
	"strings"
	"sync"
	"sync/atomic"
	"testing"
	"time"

	"github.com/feichai0017/NoKV/utils"
	"nokvverif/internal/pbt"
)

// StressCase is a free-running (real threads, no scheduler) run of the legal
// protocols against one WaterMark, executed in a child `go test -race` process.
type StressCase struct {
	Mode       string `json:"mode"` // serial | free
	Goroutines int    `json:"goroutines"`
	Ops        int    `json:"ops"` // Begin/Done pairs in total
	Seconds    int    `json:"seconds"`
}

func stressCases() []StressCase {
	return []StressCase{
		{Mode: "serial", Goroutines: 8, Ops: 400000, Seconds: 120},
		{Mode: "free", Goroutines: 8, Ops: 400000, Seconds: 120},
	}
}

var stressLine = regexp.MustCompile(`(?m)^STRESS-VIOLATION sig=(\S+) (.*)$`)

func runStress(c StressCase, r *pbt.Rec) error {
	js, _ := json.Marshal(c)
	args := []string{"test"}
	if mf := os.Getenv("VERIF_MODFLAG"); mf != "" {
		args = append(args, strings.Fields(mf)...)
	}
	args = append(args, "-race", "-tags", "verif", "-count=1", "-timeout", "20m", "-run", "^TestStressChild$", "-v", ".")
	cmd := exec.Command("go", args...)
	cmd.Dir = "."
	cmd.Env = append(os.Environ(), "C32_STRESS="+string(js), "VERIF_CHILD=", "VERIF_REPLAY=")
	var buf bytes.Buffer
	cmd.Stdout, cmd.Stderr = &buf, &buf
	err := cmd.Run()
	out := buf.String()
	r.Label("stress:" + c.Mode)
	ex := openExclusions()
	known := map[string]bool{}
	if ex.publish || ex.stale || ex.cas {
		// free-running threads cannot be steered away from an open finding: hits whose
		// signature belongs to an open finding are counted, anything else is reported.
		known["passed-unfinished"] = ex.publish || (c.Mode == "free" && (ex.stale || ex.cas))
		known["stuck"] = ex.stale
		known["wait-early"] = known["passed-unfinished"]
	}
	if ex.atmark && c.Mode == "free" {
		known["passed-begun-at-mark"] = true
	}
	if strings.Contains(out, "WARNING: DATA RACE") {
		return pbt.Failf("data-race", "race detector report in free-running %s stress:\n%s", c.Mode, clipTail(out, 60))
	}
	for _, mm := range stressLine.FindAllStringSubmatch(out, -1) {
		if known[mm[1]] {
			r.Label("stress-hit-open-finding:" + mm[1])
			r.Excluded(1)
			continue
		}
		return pbt.Failf(mm[1], "free-running %s stress: %s", c.Mode, mm[2])
	}
	if !strings.Contains(out, "STRESS-DONE") {
		return pbt.Failf("harness", "stress child did not complete (%v):\n%s", err, clipTail(out, 40))
	}
	r.NT()
	return nil
}

func clipTail(s string, n int) string {
	l := strings.Split(strings.TrimRight(s, "\n"), "\n")
	if len(l) > n {
		l = l[len(l)-n:]
	}
	return strings.Join(l, "\n")
}

// TestStressChild is the body of the child process.
func TestStressChild(t *testing.T) {
	spec := os.Getenv("C32_STRESS")
	if spec == "" {
		t.Skip("only run as a child of the race-stress spec")
	}
	var c StressCase
	if err := json.Unmarshal([]byte(spec), &c); err != nil {
		t.Fatal(err)
	}
	wm := &utils.WaterMark{Name: "stress"}
	wm.Init(nil)
	var repMu sync.Mutex
	reported := map[string]bool{}
	violated := func(sig, format string, a ...any) { // first hit of every signature
		repMu.Lock()
		defer repMu.Unlock()
		if !reported[sig] {
			reported[sig] = true
			fmt.Printf("STRESS-VIOLATION sig=%s %s\n", sig, fmt.Sprintf(format, a...))
		}
	}
	deadline := time.Now().Add(time.Duration(c.Seconds) * time.Second)
	ctx, cancel := context.WithDeadline(context.Background(), deadline.Add(10*time.Second))
	defer cancel()
	var (
		lock    sync.Mutex // the "oracle lock" of the serial protocol
		next    uint64     // last index handed out
		opsLeft atomic.Int64
		wg      sync.WaitGroup
	)
	opsLeft.Store(int64(c.Ops))
	var clock atomic.Uint64 // free mode: slowly advancing "read timestamp"
	clock.Store(1)
	for g := 0; g < c.Goroutines; g++ {
		wg.Add(1)
		go func(g int) {
			defer wg.Done()
			n := 0
			for opsLeft.Add(-1) >= 0 && time.Now().Before(deadline) {
				n++
				var idx uint64
				strict, weak := true, false
				if c.Mode == "serial" {
					lock.Lock()
					next++
					idx = next
					wm.Begin(idx)
					lock.Unlock()
					if d := wm.DoneUntil(); d >= idx {
						violated("passed-unfinished", "DoneUntil=%d reached index %d between the return of its Begin and its Done", d, idx)
					}
				} else {
					// readMark protocol: the index is the current clock.  Other goroutines begin
					// the same or higher indices concurrently, so (as in the scheduled check) the
					// position of the mark at the return of Begin decides the protection.
					idx = clock.Load()
					d0 := wm.DoneUntil()
					wm.Begin(idx)
					d1 := wm.DoneUntil()
					strict = d0 < idx && d1 < idx
					weak = !strict && d0 <= idx && d1 == idx
					if n%3 == 0 {
						clock.Add(1)
					}
					runtime.Gosched()
					d2 := wm.DoneUntil()
					if strict && d2 >= idx {
						violated("passed-unfinished", "DoneUntil=%d reached index %d (mark was %d when its Begin returned) before its Done", d2, idx, d1)
					}
					if weak && d2 > idx {
						violated("passed-begun-at-mark", "DoneUntil=%d moved beyond index %d begun at the mark, before its Done", d2, idx)
					}
				}
				if c.Mode == "serial" && idx > 3 && n%5 == 0 {
					// wait for an older index; everything below it must have been finished,
					// so the mark is below our own unfinished index afterwards as well
					if err := wm.WaitForMark(ctx, idx-3); err != nil {
						violated("stuck", "WaitForMark(%d) did not return: %v (DoneUntil=%d)", idx-3, err, wm.DoneUntil())
						wm.Done(idx)
						return
					}
					if d := wm.DoneUntil(); d >= idx {
						violated("wait-early", "after WaitForMark(%d) DoneUntil=%d >= own unfinished index %d", idx-3, d, idx)
					}
				}
				wm.Done(idx)
			}
		}(g)
	}
	wg.Wait()
	// quiescence: the mark must catch up
	want := next
	if c.Mode == "free" {
		want = wm.LastIndex()
	}
	okBy := time.Now().Add(2 * time.Second)
	for wm.DoneUntil() < want && time.Now().Before(okBy) {
		time.Sleep(time.Millisecond)
	}
	if d := wm.DoneUntil(); d < want {
		violated("stuck", "at quiescence DoneUntil=%d, every index up to %d is done", d, want)
	}
	fmt.Printf("STRESS-DONE mode=%s ops=%d last=%d doneUntil=%d\n", c.Mode, c.Ops, want, wm.DoneUntil())
}
