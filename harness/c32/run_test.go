package c32

import (
	"context"
	"fmt"
	"reflect"
	"sort"
	"strings"
	"sync"
	"sync/atomic"
	"unsafe"

	"github.com/feichai0017/NoKV/utils"
	"nokvverif/internal/pbt"
	"nokvverif/internal/sched"
)

// Op is one script step.  The concrete index an op works on is resolved while
// the schedule runs (from the reference model), so the case stays plain data and
// every executed call sequence is legal by construction.
//
//	begin      serial: fresh index top+gap(A), serialized by the cooperative "oracle lock"
//	           free:   Pool[A mod len]
//	beginmany  serial only: B(2..3) fresh increasing indices, first gap(A), then +1
//	done       Done on the (A mod n)-th open handle (Begin returned, Done not yet issued); no-op if none
//	donemany   DoneMany on up to B open handles starting at A mod n
//	wait       WaitForMark on the (A mod n)-th distinct begun index; no-op if none
//	setdone    serial only: at a quiescent point SetDoneUntil(max(top,DoneUntil)+jump(A))
//	read       DoneUntil()
type Op struct {
	K string `json:"k"`
	A int    `json:"a,omitempty"`
	B int    `json:"b,omitempty"`
}

// Case is one schedule exploration input (also the replay format).
type Case struct {
	// Mode "serial": Begin/BeginMany calls are serialized and use strictly increasing fresh
	// indices (oracle.txnMark under the oracle lock, peer.applyMark from the ready loop).
	// Mode "free": Begins are concurrent, may repeat an index and arrive out of order
	// (oracle.readMark, called without the oracle lock in oracle.readTs).
	Mode string `json:"mode"`
	// Init > 0: SetDoneUntil(Init) (+SetLastIndex(Init) in serial mode) before any worker
	// starts, as oracle.initCommitState does after recovery.
	Init uint64 `json:"init,omitempty"`
	// Prefill > 0: indices Init+1..Init+Prefill are begun and finished one after another
	// before the workers start (gap-free history; shows that index gaps are not essential).
	Prefill int      `json:"prefill,omitempty"`
	Pool    []uint64 `json:"pool,omitempty"` // free mode: offsets above Init+Prefill, ascending
	Scripts [][]Op   `json:"scripts"`
	Sched   []int    `json:"sched"`
	// Raw disables the open-finding exclusions: set only in the committed replay files of
	// findings (never by the generators), so that a listed finding keeps reproducing.
	Raw bool `json:"raw,omitempty"`
}

var gaps = []uint64{1, 1, 1, 2, 3, 65535, 65536, 70001}
var jumps = []uint64{0, 1, 2, 65535, 65536, 65537}

// ---- open-finding exclusions (see FINDINGS.md)

type exclusions struct {
	publish bool // C32-publish: lastIndex published before the pending count
	stale   bool // C32-stalewin: slot update on a window replaced by a concurrent rebuild
	atmark  bool // C32-atmark: Begin(i) with DoneUntil()==i is not protected
	cas     bool // C32-stalecas: Begin(next) between tryAdvance's slot check and its CAS
}

func openExclusions() exclusions {
	return exclusions{
		publish: pbt.Open("C32-publish"),
		stale:   pbt.Open("C32-stalewin"),
		atmark:  pbt.Open("C32-atmark"),
		cas:     pbt.Open("C32-stalecas"),
	}
}

// ---- window introspection (reflect, read-only)

type winInfo struct {
	ptr  uintptr
	base uint64
	size int
}

func windowOf(w *utils.WaterMark) (wi winInfo, err error) {
	defer func() {
		if p := recover(); p != nil {
			err = fmt.Errorf("window introspection failed: %v", p)
		}
	}()
	f := reflect.ValueOf(w).Elem().FieldByName("window")
	av := (*atomic.Value)(unsafe.Pointer(f.UnsafeAddr()))
	v := av.Load()
	if v == nil {
		return wi, nil
	}
	rv := reflect.ValueOf(v)
	wi.ptr = rv.Pointer()
	wi.base = rv.Elem().FieldByName("base").Uint()
	wi.size = rv.Elem().FieldByName("slots").Len()
	return wi, nil
}

// ---- reference model

type prot int

const (
	protNone   prot = iota // begun while DoneUntil > index: the mark had already passed it
	protWeak               // begun while DoneUntil == index: the mark must not move beyond it
	protStrict             // begun while DoneUntil < index: the mark must stay below it
)

type handle struct {
	idx        uint64
	p          prot // valid once returned
	call       int  // Begin/BeginMany call the handle belongs to
	seq        int
	returned   bool // Begin returned
	doneIssued bool // Done call started
	doneRet    bool // Done call returned
}

type wflags struct {
	inBegin   atomic.Bool
	slotsLeft atomic.Int32
	parks     atomic.Int32
	waiting   atomic.Uint64 // index being waited for (0 = none)
}

type model struct {
	mu          sync.Mutex
	handles     []*handle
	top         uint64 // serial: highest index handed out / set
	maxBegun    uint64
	maxSet      uint64
	beginBusy   bool
	inflight    int // Begin/Done/SetDoneUntil calls in progress
	begunSet    map[uint64]bool
	hot         atomic.Pointer[map[uint64]bool]
	skipSetdone bool
	calls       int
	fail        error // failure recorded from a worker goroutine (wait oracle)
	prevD       uint64
}

func (m *model) addHot(idx ...uint64) {
	old := m.hot.Load()
	n := map[uint64]bool{}
	if old != nil {
		for k := range *old {
			n[k] = true
		}
	}
	for _, i := range idx {
		n[i] = true
		n[i+1] = true
		if i > 0 {
			n[i-1] = true
		}
	}
	m.hot.Store(&n)
}

func (m *model) openHandles() []*handle {
	var o []*handle
	for _, h := range m.handles {
		if h.returned && !h.doneIssued {
			o = append(o, h)
		}
	}
	return o
}

func (m *model) begunSorted() []uint64 {
	var s []uint64
	for k := range m.begunSet {
		s = append(s, k)
	}
	sort.Slice(s, func(i, j int) bool { return s[i] < s[j] })
	return s
}

// ---- execution

const maxParksPerOp = 12

// traceSink (tests of the harness itself) receives the scheduler result of every run.
var traceSink func(*sched.Result)

func run(c Case, r *pbt.Rec) error {
	if len(c.Scripts) == 0 {
		return nil
	}
	ex := openExclusions()
	if c.Raw {
		ex = exclusions{}
	}
	serial := c.Mode != "free"
	wm := &utils.WaterMark{Name: "c32"}
	wm.Init(nil)
	m := &model{begunSet: map[uint64]bool{}}
	base := c.Init
	if c.Init > 0 {
		wm.SetDoneUntil(c.Init)
		if serial {
			wm.SetLastIndex(c.Init)
		}
		m.maxSet = c.Init
	}
	for i := 1; i <= c.Prefill; i++ {
		wm.Begin(base + uint64(i))
		wm.Done(base + uint64(i))
	}
	base += uint64(c.Prefill)
	if c.Prefill > 0 {
		m.maxBegun = base
		if got := wm.DoneUntil(); got != base {
			return pbt.Failf("prefill", "sequential prefill 1..%d left DoneUntil=%d", base, got)
		}
	}
	m.top = base
	m.prevD = wm.DoneUntil()
	var pool []uint64
	for _, off := range c.Pool {
		pool = append(pool, base+off)
	}
	m.addHot(pool...)
	m.addHot(base)

	ctx, cancel := context.WithCancel(context.Background())
	defer cancel()

	flags := make([]*wflags, len(c.Scripts))
	var s *sched.Scheduler
	excluded := 0
	var exMu sync.Mutex
	addExcluded := func(n int) { exMu.Lock(); excluded += n; exMu.Unlock() }

	filter := func(label string) bool {
		if !strings.HasPrefix(label, "wm.") {
			return false
		}
		if label == "wm.advance.beforeCAS" {
			h := m.hot.Load()
			return h != nil && (*h)[wm.DoneUntil()+1]
		}
		return true
	}
	park := func(w *sched.Worker, label string) bool {
		f := flags[w.ID]
		if label == "wm.add.afterSlot" && f.inBegin.Load() {
			f.slotsLeft.Add(-1)
		}
		switch {
		case (ex.publish || ex.atmark && !serial) && f.inBegin.Load() && f.slotsLeft.Load() > 0:
			// C32-publish open: a Begin/BeginMany is not preempted between publishing
			// lastIndex and the increment of its last pending count.
			// C32-atmark open (free mode): a Begin is not preempted before its count has
			// landed, so it cannot take effect exactly at a mark that moved meanwhile.
			return false
		case ex.stale && label == "wm.add.afterEnsure":
			// C32-stalewin open: nobody is preempted between ensureWindow and the slot update.
			return false
		case ex.cas && !serial && label == "wm.advance.beforeCAS":
			// C32-stalecas open: (free mode) nobody is preempted between the slot check and the CAS.
			return false
		}
		if f.parks.Add(1) > maxParksPerOp {
			return false
		}
		return true
	}

	var winPrev winInfo
	var introErr error
	winPrev, introErr = windowOf(wm)
	if introErr != nil {
		return pbt.Failf("harness", "%v", introErr)
	}
	rebuilds := 0
	ntKinds := map[string]bool{}

	gap := func(a int) uint64 { return gaps[abs(a)%len(gaps)] }

	script := func(id int, ops []Op) func(w *sched.Worker) {
		return func(w *sched.Worker) {
			f := flags[id]
			for _, op := range ops {
				f.parks.Store(0)
				switch op.K {
				case "begin", "beginmany":
					var idxs []uint64
					if serial {
						w.Await("op.begin", func() bool { m.mu.Lock(); defer m.mu.Unlock(); return !m.beginBusy })
						m.mu.Lock()
						m.beginBusy = true
						n := 1
						if op.K == "beginmany" {
							n = 2 + abs(op.B)%2
						}
						next := m.top + gap(op.A)
						for i := 0; i < n; i++ {
							idxs = append(idxs, next+uint64(i))
						}
						m.top = idxs[len(idxs)-1]
						m.mu.Unlock()
					} else {
						w.Yield("op.begin")
						if len(pool) == 0 {
							continue
						}
						idxs = []uint64{pool[abs(op.A)%len(pool)]}
					}
					d0 := wm.DoneUntil()
					if !serial && ex.atmark && d0 == idxs[0] {
						addExcluded(1) // C32-atmark open: do not begin exactly at the mark
						continue
					}
					hs := make([]*handle, len(idxs))
					m.mu.Lock()
					m.calls++
					call := m.calls
					for i, idx := range idxs {
						hs[i] = &handle{idx: idx, call: call, seq: len(m.handles)}
						m.handles = append(m.handles, hs[i])
						m.begunSet[idx] = true
					}
					m.inflight++
					m.mu.Unlock()
					m.addHot(idxs...)
					f.slotsLeft.Store(int32(len(idxs)))
					f.inBegin.Store(true)
					if ex.publish || ex.atmark && !serial {
						addExcluded(1)
					}
					if len(idxs) == 1 {
						wm.Begin(idxs[0])
					} else {
						wm.BeginMany(idxs)
					}
					f.inBegin.Store(false)
					d1 := wm.DoneUntil()
					m.mu.Lock()
					for _, h := range hs {
						// Protection of the index (see FINDINGS.md, "oracle"): normally decided by
						// where the mark stood when Begin was called.  If another call had already
						// begun an index >= this one, the mark may legitimately have reached this
						// index while our Begin was still in flight (it then took effect "at the
						// mark"), so the position at the return decides.
						d := d0
						for _, o := range m.handles {
							if o.call != h.call && o.idx >= h.idx {
								d = d1
								break
							}
						}
						switch {
						case d < h.idx:
							h.p = protStrict
						case d == h.idx:
							h.p = protWeak
						default:
							h.p = protNone
						}
						h.returned = true
						if h.idx > m.maxBegun {
							m.maxBegun = h.idx
						}
					}
					m.inflight--
					if serial {
						m.beginBusy = false
					}
					m.mu.Unlock()
				case "done", "donemany":
					w.Yield("op.done")
					m.mu.Lock()
					open := m.openHandles()
					var pick []*handle
					if len(open) > 0 {
						n := 1
						if op.K == "donemany" {
							n = 2 + abs(op.B)%2
						}
						st := abs(op.A) % len(open)
						for i := 0; i < n && i < len(open); i++ {
							pick = append(pick, open[(st+i)%len(open)])
						}
						sort.Slice(pick, func(i, j int) bool { return pick[i].idx < pick[j].idx })
						for _, h := range pick {
							h.doneIssued = true
						}
						m.inflight++
					}
					m.mu.Unlock()
					if len(pick) == 0 {
						continue
					}
					if op.K == "done" {
						wm.Done(pick[0].idx)
					} else {
						var idxs []uint64
						for _, h := range pick {
							idxs = append(idxs, h.idx)
						}
						wm.DoneMany(idxs)
					}
					m.mu.Lock()
					for _, h := range pick {
						h.doneRet = true
					}
					m.inflight--
					m.mu.Unlock()
				case "wait":
					w.Yield("op.wait")
					m.mu.Lock()
					cand := m.begunSorted()
					m.mu.Unlock()
					if len(cand) == 0 {
						continue
					}
					target := cand[abs(op.A)%len(cand)]
					f.waiting.Store(target)
					err := wm.WaitForMark(ctx, target)
					f.waiting.Store(0)
					if err != nil {
						continue // cancelled by the harness: no judgement
					}
					// The wait returned.  Every strictly protected index <= target whose Begin
					// had returned by now must have had its Done issued: judged under the model
					// lock against recorded events only (sound under real concurrency).
					m.mu.Lock()
					for _, h := range m.handles {
						if h.returned && !h.doneIssued && h.p == protStrict && h.idx <= target && m.fail == nil {
							m.fail = pbt.Failf("wait-early", "WaitForMark(%d) returned while index %d was begun (Begin returned) and its Done had not been called", target, h.idx)
						}
					}
					m.mu.Unlock()
				case "setdone":
					if !serial {
						continue
					}
					quiet := func() bool {
						return !m.beginBusy && m.inflight == 0 && len(m.openHandles()) == 0
					}
					w.Await("op.setdone", func() bool {
						m.mu.Lock()
						defer m.mu.Unlock()
						return m.skipSetdone || quiet()
					})
					m.mu.Lock()
					if !quiet() {
						// nobody is going to finish the open indices: SetDoneUntil would be
						// intermingled with Begin/Done, which the contract forbids - skip it
						m.mu.Unlock()
						continue
					}
					v := m.top
					if d := wm.DoneUntil(); d > v {
						v = d
					}
					v += jumps[abs(op.A)%len(jumps)]
					m.top = v
					if v > m.maxSet {
						m.maxSet = v
					}
					m.inflight++
					m.mu.Unlock()
					m.addHot(v)
					wm.SetDoneUntil(v)
					m.mu.Lock()
					m.inflight--
					m.mu.Unlock()
				case "read":
					w.Yield("op.read")
					_ = wm.DoneUntil()
				}
			}
		}
	}

	describe := func() string {
		var b strings.Builder
		for _, h := range m.handles {
			st := "inflight"
			switch {
			case h.doneRet:
				st = "done"
			case h.doneIssued:
				st = "done-inflight"
			case h.returned:
				st = "OPEN"
			}
			fmt.Fprintf(&b, " %d:%s/p%d", h.idx, st, h.p)
		}
		return b.String()
	}

	check := func(where string) error {
		m.mu.Lock()
		defer m.mu.Unlock()
		if m.fail != nil {
			return m.fail
		}
		d := wm.DoneUntil()
		if d < m.prevD {
			return pbt.Failf("decreased", "%s: DoneUntil went from %d to %d", where, m.prevD, d)
		}
		m.prevD = d
		for _, h := range m.handles {
			if !h.returned || h.doneIssued {
				continue
			}
			switch h.p {
			case protStrict:
				if d >= h.idx {
					return pbt.Failf("passed-unfinished", "%s: DoneUntil=%d reached index %d which has begun (Begin returned, DoneUntil was below it when Begin was called) and whose Done has not been called; handles:%s", where, d, h.idx, describe())
				}
			case protWeak:
				if d > h.idx {
					return pbt.Failf("passed-begun-at-mark", "%s: DoneUntil=%d moved beyond index %d which was begun while DoneUntil==%d and whose Done has not been called; handles:%s", where, d, h.idx, h.idx, describe())
				}
			}
		}
		return nil
	}

	afterStep := func(st sched.Step) error {
		wi, err := windowOf(wm)
		if err != nil {
			return pbt.Failf("harness", "%v", err)
		}
		if wi.ptr != winPrev.ptr {
			rebuilds++
			// who was parked inside an operation while the window was replaced?
			for _, w := range s.Workers() {
				if w.ID == st.Worker {
					continue
				}
				switch l := w.Label(); {
				case l == "wm.add.afterEnsure":
					ntKinds["rebuild-between-ensure-and-slot"] = true
				case strings.HasPrefix(l, "wm."):
					ntKinds["rebuild-mid-op"] = true
				}
			}
			winPrev = wi
		}
		nCAS := 0
		for _, w := range s.Workers() {
			if w.Label() == "wm.advance.beforeCAS" {
				nCAS++
			}
		}
		if nCAS >= 2 {
			ntKinds["cas-race"] = true
		}
		return check(st.String())
	}

	var hangErr error
	onHang := func(blocked []*sched.Worker) bool {
		// Nobody can run.  Workers blocked in WaitForMark: a wait whose target is already
		// covered by DoneUntil missed its wake-up.  Otherwise waiting is legitimate (the
		// scripts are not obliged to finish every index): cancel and let the scripts go on.
		d := wm.DoneUntil()
		any := false
		for _, w := range blocked {
			if t := flags[w.ID].waiting.Load(); t != 0 {
				any = true
				if d >= t && hangErr == nil {
					hangErr = pbt.Failf("wait-missed-wakeup", "WaitForMark(%d) still blocked although DoneUntil=%d and no call is in progress", t, d)
				}
			}
		}
		if !any {
			// only script guards are left (a setdone waiting for indices nobody finishes)
			m.mu.Lock()
			was := m.skipSetdone
			m.skipSetdone = true
			m.mu.Unlock()
			if !was {
				r.Label("hang:setdone-skipped")
			}
			return !was
		}
		// stuck-mark judgement happens at quiescence; remember that waiters were cut loose
		r.Label("hang:waiters-cancelled")
		cancel()
		return true
	}

	s = sched.New(sched.Config{
		Choices: c.Sched, Filter: filter, Park: park, AfterStep: afterStep,
		OnHang: onHang, OnStop: cancel, MaxSteps: 5000,
	})
	for i, ops := range c.Scripts {
		flags[i] = &wflags{}
		s.Go(fmt.Sprintf("w%d", i), script(i, ops))
	}
	utils.SetVerifYield(s.Yield)
	res := s.Run()
	utils.SetVerifYield(nil)
	if traceSink != nil {
		traceSink(res)
	}

	r.Excluded(excluded)
	r.Label("mode:" + c.Mode)
	r.LabelN("rebuilds", rebuilds)
	r.LabelN("blocked-seen", res.BlockedSeen)
	r.LabelN("steps", res.Steps)
	for _, ops := range c.Scripts {
		for _, op := range ops {
			r.Label("op:" + op.K)
		}
	}
	for _, st := range res.Trace {
		if strings.HasPrefix(st.To, "wm.") {
			r.Label("park:" + st.To)
		}
	}
	for _, h := range m.handles {
		switch h.p {
		case protWeak:
			r.Label("begin-at-mark")
		case protNone:
			r.Label("begin-below-mark")
		}
	}
	if len(ntKinds) > 0 {
		var ks []string
		for k := range ntKinds {
			ks = append(ks, k)
			r.Label("nt:" + k)
		}
		sort.Strings(ks)
		r.NT()
	}

	trace := func() string { return "\n  trace: " + res.TraceString() + "\n  handles:" + describe() }
	if len(res.Panics) > 0 {
		return pbt.Failf("panic", "%s%s", res.Panics[0], trace())
	}
	if res.Stop != nil {
		if f, ok := res.Stop.(*pbt.Fail); ok {
			return pbt.Failf(f.Sig, "%s%s", f.Msg, trace())
		}
		return res.Stop
	}
	if hangErr != nil {
		f := hangErr.(*pbt.Fail)
		return pbt.Failf(f.Sig, "%s%s", f.Msg, trace())
	}
	if res.Err != nil {
		return pbt.Failf("harness", "%v%s", res.Err, trace())
	}
	if res.Hung {
		// guard deadlock of the scripts themselves (e.g. setdone waiting for an index nobody
		// finishes): not a property matter
		r.Label("hang:script-guard")
		return nil
	}
	if err := check("quiescence"); err != nil {
		f := err.(*pbt.Fail)
		return pbt.Failf(f.Sig, "%s%s", f.Msg, trace())
	}
	// quiescence: every call has returned.  DoneUntil must have caught up with the maximal
	// fully-done prefix.
	d := wm.DoneUntil()
	var minOpen uint64
	hasOpen := false
	for _, h := range m.handles {
		if !h.doneRet {
			if !hasOpen || h.idx < minOpen {
				minOpen, hasOpen = h.idx, true
			}
		}
	}
	want := m.maxBegun
	if m.maxSet > want {
		want = m.maxSet
	}
	if hasOpen {
		want = minOpen - 1
	}
	if d < want {
		return pbt.Failf("stuck", "at quiescence DoneUntil=%d but every index up to %d that was begun is done (lost decrement)%s", d, want, trace())
	}
	r.Label("quiescent-ok")
	return nil
}

func abs(a int) int {
	if a < 0 {
		return -a
	}
	return a
}
