package c16

// Native go-fuzz targets (thorough tier): one per decoder, oracle = checkOne (no
// panic, bounded allocation, open finding classes excluded by the same pre-screen
// as the rapid specs).  TestCheck (thorough) runs each target for a bounded time
// from one instrumented test binary (go test -c -fuzz) with a fresh fuzz cache directory.

import (
	"bufio"
	"bytes"
	"encoding/json"
	"fmt"
	"os"
	"os/exec"
	"path/filepath"
	"regexp"
	"strconv"
	"strings"
	"testing"
	"time"

	"nokvverif/internal/pbt"
)

func fuzzDecoder(f *testing.F, d *decoder) {
	for _, s := range d.seeds() {
		f.Add(s)
	}
	for _, h := range hostileVs {
		f.Add(h)
	}
	f.Fuzz(func(t *testing.T, data []byte) {
		if len(data) > 1<<16 {
			return
		}
		if err := checkOne(d, data, nil); err != nil {
			t.Fatal(err)
		}
	})
}

func FuzzEntry(f *testing.F)         { fuzzDecoder(f, decEntry) }
func FuzzEntryStream(f *testing.F)   { fuzzDecoder(f, decEntryStream) }
func FuzzValueSlice(f *testing.F)    { fuzzDecoder(f, decValueSlice) }
func FuzzEntryHeader(f *testing.F)   { fuzzDecoder(f, decHeader) }
func FuzzValueStruct(f *testing.F)   { fuzzDecoder(f, decValueStruct) }
func FuzzValuePtr(f *testing.F)      { fuzzDecoder(f, decValuePtr) }
func FuzzKeys(f *testing.F)          { fuzzDecoder(f, decKeys) }
func FuzzManifestEdit(f *testing.F)  { fuzzDecoder(f, decEdit) }
func FuzzManifestFrame(f *testing.F) { fuzzDecoder(f, decFrame) }
func FuzzLock(f *testing.F)          { fuzzDecoder(f, decLock) }
func FuzzWrite(f *testing.F)         { fuzzDecoder(f, decWrite) }
func FuzzRaftEntries(f *testing.F)   { fuzzDecoder(f, decRaftEntries) }
func FuzzRaftHardState(f *testing.F) { fuzzDecoder(f, decRaftHardState) }
func FuzzRaftSnapshot(f *testing.F)  { fuzzDecoder(f, decRaftSnapshot) }
func FuzzCommand(f *testing.F)       { fuzzDecoder(f, decCommand) }

var fuzzTargets = []struct {
	fn  string
	dec *decoder
}{
	{"FuzzEntry", decEntry}, {"FuzzEntryStream", decEntryStream}, {"FuzzValueSlice", decValueSlice}, {"FuzzEntryHeader", decHeader},
	{"FuzzValueStruct", decValueStruct}, {"FuzzValuePtr", decValuePtr}, {"FuzzKeys", decKeys},
	{"FuzzManifestEdit", decEdit}, {"FuzzManifestFrame", decFrame}, {"FuzzLock", decLock}, {"FuzzWrite", decWrite},
	{"FuzzRaftEntries", decRaftEntries}, {"FuzzRaftHardState", decRaftHardState}, {"FuzzRaftSnapshot", decRaftSnapshot}, {"FuzzCommand", decCommand},
}

var (
	reFailFile = regexp.MustCompile(`Failing input written to (testdata/fuzz/\S+)`)
	reExecs    = regexp.MustCompile(`execs: (\d+)`)
)

// parseCorpusFile reads a "go test fuzz v1" file with a single []byte argument.
func parseCorpusFile(path string) ([]byte, error) {
	b, err := os.ReadFile(path)
	if err != nil {
		return nil, err
	}
	sc := bufio.NewScanner(bytes.NewReader(b))
	sc.Buffer(make([]byte, 1<<20), 1<<24)
	for sc.Scan() {
		l := strings.TrimSpace(sc.Text())
		if strings.HasPrefix(l, "[]byte(") && strings.HasSuffix(l, ")") {
			s, err := strconv.Unquote(l[len("[]byte(") : len(l)-1])
			if err != nil {
				return nil, err
			}
			return []byte(s), nil
		}
	}
	return nil, fmt.Errorf("no []byte value in %s", path)
}

// runNativeFuzz runs every fuzz target for VERIF_FUZZTIME (default 45s) and turns
// crashers into replay files of the "bytes" spec.
func runNativeFuzz(t *testing.T, s *pbt.Suite) {
	if os.Getenv("VERIF_CHILD") != "" || os.Getenv("VERIF_REPLAY") != "" || os.Getenv("VERIF_NOFUZZ") != "" {
		return
	}
	if only := os.Getenv("VERIF_SPEC"); only != "" && only != "fuzz" {
		return
	}
	fuzztime := os.Getenv("VERIF_FUZZTIME")
	if fuzztime == "" {
		fuzztime = "45s"
	}
	budget, err := time.ParseDuration(fuzztime)
	if err != nil {
		budget = 45 * time.Second
	}
	par := os.Getenv("VERIF_FUZZPARALLEL")
	if par == "" {
		par = "8"
	}
	pkgDir, _ := os.Getwd()
	cache, cleanup := pbt.TempDir("fuzzcache")
	defer cleanup()
	type res struct {
		Target  string  `json:"target"`
		Execs   int     `json:"execs"`
		Seconds float64 `json:"seconds"`
		Outcome string  `json:"outcome"`
	}
	var results []res
	// one instrumented build, then every target is run from that binary
	bin := filepath.Join(cache, "c16.fuzz.test")
	{
		args := []string{"test"}
		args = append(args, strings.Fields(os.Getenv("VERIF_MODFLAG"))...)
		args = append(args, "-c", "-tags", "verif", "-fuzz", "^FuzzEntry$", "-o", bin, ".")
		cmd := exec.Command("go", args...)
		cmd.Dir = pkgDir
		if out, err := cmd.CombinedOutput(); err != nil {
			fmt.Printf("note: building the fuzz binary failed: %v\n%s\nINCONCLUSIVE property=C16\n", err, out)
			return
		}
	}
	for _, ft := range fuzzTargets {
		if only := os.Getenv("VERIF_FUZZONLY"); only != "" && only != ft.fn {
			continue
		}
		cmd := exec.Command(bin, "-test.run", "^$", "-test.fuzz", "^"+ft.fn+"$", "-test.fuzztime", fuzztime, "-test.parallel", par,
			"-test.timeout", (budget + 5*time.Minute).String(), "-test.fuzzcachedir", filepath.Join(cache, ft.fn))
		cmd.Dir = pkgDir
		cmd.Env = append(os.Environ(), "VERIF_TIER=quick")
		start := time.Now()
		out, err := cmd.CombinedOutput()
		rs := res{Target: ft.fn, Seconds: time.Since(start).Seconds(), Outcome: "ok"}
		for _, m := range reExecs.FindAllSubmatch(out, -1) {
			if n, e := strconv.Atoi(string(m[1])); e == nil && n > rs.Execs {
				rs.Execs = n
			}
		}
		if err != nil {
			rs.Outcome = "failed"
			tail := string(out)
			if len(tail) > 3000 {
				tail = tail[len(tail)-3000:]
			}
			if m := reFailFile.FindSubmatch(out); m != nil {
				crash := filepath.Join(pkgDir, string(m[1]))
				data, perr := parseCorpusFile(crash)
				if perr == nil {
					rs.Outcome = "crasher"
					c := BytesCase{Dec: ft.dec.name, Data: data}
					cj, _ := json.Marshal(c)
					msg := "native fuzzing (" + ft.fn + ") found a failing input"
					if e := runBytes(c, &pbt.Rec{}); e != nil {
						msg = e.Error()
					}
					rf := map[string]any{"property": "C16", "spec": "bytes", "msg": msg, "case": json.RawMessage(cj)}
					rb, _ := json.MarshalIndent(rf, "", " ")
					dir := filepath.Join(pbt.VerifRoot(), "replays")
					_ = os.MkdirAll(dir, 0o755)
					path := filepath.Join(dir, fmt.Sprintf("C16-bytes-fuzz-%s-%s.json", ft.dec.name, filepath.Base(crash)))
					_ = os.WriteFile(path, append(rb, '\n'), 0o644)
					fmt.Printf("native fuzz target %s falsified: %s\n", ft.fn, msg)
					fmt.Printf("VIOLATION property=C16 replay=%s\n", path)
				}
				_ = os.Remove(crash)
				_ = os.Remove(filepath.Dir(crash))
				_ = os.Remove(filepath.Dir(filepath.Dir(crash)))
				_ = os.Remove(filepath.Dir(filepath.Dir(filepath.Dir(crash))))
			}
			if rs.Outcome == "failed" && bytes.Contains(out, []byte("/seed#")) {
				// a seed-corpus entry fails: the same inputs are the static cases of spec "bytes", which report it
				rs.Outcome = "seed-fails"
				fmt.Printf("note: a seed of %s fails before fuzzing starts (same input is a static case of spec bytes):\n%s\n", ft.fn, tail)
			}
			if rs.Outcome == "failed" {
				fmt.Printf("note: native fuzz run of %s did not complete: %v\n%s\n", ft.fn, err, tail)
				fmt.Printf("INCONCLUSIVE property=C16\n")
			}
		}
		fmt.Printf("native fuzz %-18s execs=%d wall=%.0fs outcome=%s\n", ft.fn, rs.Execs, rs.Seconds, rs.Outcome)
		results = append(results, rs)
	}
	s.Extra("native_fuzz", results)
}
