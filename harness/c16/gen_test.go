package c16

import (
	"encoding/binary"
	"encoding/json"
	"math"

	"github.com/feichai0017/NoKV/kv"
	"github.com/feichai0017/NoKV/manifest"
	"pgregory.net/rapid"
)

func jsonMarshal(v any) ([]byte, error) { return json.Marshal(v) }

// varint boundaries: 7-bit group edges, 32/63/64-bit edges
var u64Edges = func() []uint64 {
	e := []uint64{0, 1, 2, 255, 256, math.MaxUint32 - 1, math.MaxUint32, 1 << 32, math.MaxInt64 - 1, math.MaxInt64, 1 << 63, 1<<63 + 1, math.MaxUint64 - 1, math.MaxUint64}
	for k := uint(7); k < 64; k += 7 {
		e = append(e, 1<<k-1, 1<<k)
	}
	return e
}()

func gU64(t *rapid.T, label string) uint64 {
	switch rapid.IntRange(0, 3).Draw(t, label+"?") {
	case 0:
		return rapid.SampledFrom(u64Edges).Draw(t, label)
	case 1:
		return rapid.Uint64Range(0, 300).Draw(t, label)
	}
	return rapid.Uint64().Draw(t, label)
}

func gU32(t *rapid.T, label string) uint32 {
	if rapid.Bool().Draw(t, label+"?") {
		return rapid.SampledFrom([]uint32{0, 1, 127, 128, 16383, 16384, 1<<21 - 1, 1 << 21, 1<<28 - 1, 1 << 28, math.MaxInt32, 1 << 31, math.MaxUint32 - 1, math.MaxUint32}).Draw(t, label)
	}
	return rapid.Uint32().Draw(t, label)
}

var byteEdges = []byte{0x00, 0x01, 0x7f, 0x80, 0xfe, 0xff, 'C', 'F', 'a'}

func gByte(t *rapid.T, label string) byte {
	if rapid.Bool().Draw(t, label+"?") {
		return rapid.SampledFrom(byteEdges).Draw(t, label)
	}
	return rapid.Byte().Draw(t, label)
}

// gBytes: short strings by default; lengths at the 1- and 2-byte varint edges now and then.
func gBytes(t *rapid.T, label string, big bool) HB {
	n := 0
	switch k := rapid.IntRange(0, 19).Draw(t, label+"#"); {
	case k < 3:
		n = 0
	case k < 14:
		n = rapid.IntRange(1, 12).Draw(t, label+"n")
	case k < 17:
		n = rapid.IntRange(13, 70).Draw(t, label+"n")
	case big && k < 19:
		n = rapid.SampledFrom([]int{126, 127, 128, 129, 255, 256}).Draw(t, label+"n")
	case big && rapid.IntRange(0, 3).Draw(t, label+"huge?") == 0:
		n = rapid.SampledFrom([]int{16383, 16384, 16385}).Draw(t, label+"n")
	default:
		n = rapid.IntRange(1, 12).Draw(t, label+"n")
	}
	if n > 70 { // long strings: cheap fill, shape does not matter
		b := make([]byte, n)
		f := rapid.Byte().Draw(t, label+"fill")
		for i := range b {
			b[i] = f + byte(i)
		}
		return b
	}
	b := make([]byte, n)
	for i := range b {
		b[i] = gByte(t, label)
	}
	return b
}

func gMut(t *rapid.T) Mut {
	m := Mut{X: rapid.SampledFrom([]byte{0xff, 0x80, 0x01, 0x7f, 0x40, 0x03}).Draw(t, "x")}
	if rapid.Bool().Draw(t, "x?") {
		m.X = rapid.Byte().Draw(t, "xr")
	}
	np := rapid.IntRange(0, 6).Draw(t, "pokes")
	for i := 0; i < np; i++ {
		m.Pokes = append(m.Pokes, Poke{Pos: rapid.Uint16().Draw(t, "pos"), Val: gByte(t, "val")})
	}
	return m
}

func gUserKey(t *rapid.T, label string) HB {
	if rapid.IntRange(0, 5).Draw(t, label+"?") == 0 {
		return rapid.SampledFrom([]HB{nil, {0xff, 'C', 'F', 1}, {0xff}, {0}, {0xff, 0xff, 0xff, 0xff, 0xff, 0xff, 0xff, 0xff}, {0, 0, 0, 0, 0, 0, 0, 0}, HB("!NoKV!")}).Draw(t, label)
	}
	return gBytes(t, label, false)
}

func genEntry(t *rapid.T) EntryCase {
	c := EntryCase{}
	switch rapid.IntRange(0, 3).Draw(t, "keykind") {
	case 0:
		c.Key = gBytes(t, "rawkey", true)
	default:
		c.Key = kv.InternalKey(kv.ColumnFamily(rapid.IntRange(0, 2).Draw(t, "cf")), gUserKey(t, "ukey"), gU64(t, "ts"))
	}
	c.Value = gBytes(t, "value", true)
	if rapid.IntRange(0, 3).Draw(t, "meta?") == 0 {
		c.Meta = rapid.SampledFrom([]byte{0, kv.BitDelete, kv.BitValuePointer, 0x7f, 0x80, 0xff}).Draw(t, "meta")
	} else {
		c.Meta = rapid.Byte().Draw(t, "metar")
	}
	c.ExpiresAt = gU64(t, "exp")
	c.HK, c.HV = gU32(t, "hk"), gU32(t, "hv")
	c.M = gMut(t)
	return c
}

func genValue(t *rapid.T) ValueCase {
	return ValueCase{Meta: gByte(t, "meta"), ExpiresAt: gU64(t, "exp"), Value: gBytes(t, "value", true),
		Ptr: kv.ValuePtr{Len: gU32(t, "len"), Offset: gU32(t, "off"), Fid: gU32(t, "fid"), Bucket: gU32(t, "bucket")}, M: gMut(t)}
}

// genOrder draws three keys that are related: each later key is, with high
// probability, a small edit of an earlier one (same key other ts, key extended /
// shortened / last byte changed, other cf).
func genOrder(t *rapid.T) OrderCase {
	var c OrderCase
	c.K[0] = KeyT{CF: uint8(rapid.IntRange(0, 3).Draw(t, "cf")), Key: gUserKey(t, "key"), Ts: gU64(t, "ts")}
	for i := 1; i < 3; i++ {
		b := c.K[rapid.IntRange(0, i-1).Draw(t, "base")]
		k := KeyT{CF: b.CF, Key: append(HB(nil), b.Key...), Ts: b.Ts}
		for _, op := range rapid.SliceOfN(rapid.IntRange(0, 9), 1, 3).Draw(t, "ops") {
			switch op {
			case 0: // identical
			case 1:
				k.Ts = gU64(t, "ts")
			case 2:
				k.Ts++
			case 3:
				k.Ts--
			case 4:
				k.Key = append(k.Key, gByte(t, "ext"))
			case 5:
				if len(k.Key) > 0 {
					k.Key = k.Key[:len(k.Key)-1]
				}
			case 6:
				if len(k.Key) > 0 {
					k.Key[len(k.Key)-1] += byte(rapid.SampledFrom([]int{1, 255, 128}).Draw(t, "d"))
				}
			case 7:
				k.CF = uint8(rapid.IntRange(0, 4).Draw(t, "cf"))
			case 8:
				k.Key = gUserKey(t, "key")
			case 9: // append something that looks like a version suffix of another key
				k.Key = append(k.Key, kv.KeyWithTs(nil, gU64(t, "sfx"))...)
			}
		}
		c.K[i] = k
	}
	// raw strings: arbitrary, related by construction, > 8 bytes
	r0 := append(HB(nil), rapid.SliceOfN(rapid.Byte(), 9, 24).Draw(t, "raw")...)
	c.Raw[0] = r0
	for i := 1; i < 3; i++ {
		b := append(HB(nil), c.Raw[rapid.IntRange(0, i-1).Draw(t, "rbase")]...)
		switch rapid.IntRange(0, 4).Draw(t, "rop") {
		case 0:
		case 1:
			b[rapid.IntRange(0, len(b)-1).Draw(t, "ri")] ^= byte(rapid.IntRange(1, 255).Draw(t, "rx"))
		case 2:
			b = append(b[:len(b)-8:len(b)-8], append([]byte{gByte(t, "rins")}, b[len(b)-8:]...)...)
		case 3:
			if len(b) > 9 {
				b = append(b[:len(b)-9:len(b)-9], b[len(b)-8:]...)
			}
		case 4:
			b = append(HB(nil), rapid.SliceOfN(rapid.Byte(), 9, 24).Draw(t, "raw")...)
		}
		c.Raw[i] = b
	}
	return c
}

func genManifest(t *rapid.T) ManifestCase {
	typ := manifest.EditType(rapid.IntRange(0, 8).Draw(t, "type"))
	e := manifest.Edit{Type: typ}
	ikey := func(l string) []byte {
		if rapid.Bool().Draw(t, l+"?") {
			return kv.InternalKey(kv.ColumnFamily(rapid.IntRange(0, 2).Draw(t, l+"cf")), gUserKey(t, l), gU64(t, l+"ts"))
		}
		return gBytes(t, l, true)
	}
	switch typ {
	case manifest.EditAddFile, manifest.EditDeleteFile:
		lvl := rapid.IntRange(0, 7).Draw(t, "level")
		if rapid.IntRange(0, 9).Draw(t, "lvl?") == 0 {
			lvl = rapid.SampledFrom([]int{127, 128, math.MaxInt32, math.MaxInt64}).Draw(t, "lvlbig")
		}
		e.File = &manifest.FileMeta{Level: lvl, FileID: gU64(t, "fid"), Size: gU64(t, "size"), Smallest: ikey("smallest"), Largest: ikey("largest"),
			CreatedAt: gU64(t, "created"), ValueSize: gU64(t, "vsize"), Ingest: rapid.Bool().Draw(t, "ingest")}
	case manifest.EditLogPointer:
		e.LogSeg, e.LogOffset = gU32(t, "seg"), gU64(t, "off")
	case manifest.EditValueLogHead:
		if rapid.IntRange(0, 9).Draw(t, "nil?") > 0 {
			e.ValueLog = &manifest.ValueLogMeta{Bucket: gU32(t, "bucket"), FileID: gU32(t, "fid"), Offset: gU64(t, "off"), Valid: true}
		}
	case manifest.EditDeleteValueLog:
		if rapid.IntRange(0, 9).Draw(t, "nil?") > 0 {
			e.ValueLog = &manifest.ValueLogMeta{Bucket: gU32(t, "bucket"), FileID: gU32(t, "fid")}
		}
	case manifest.EditUpdateValueLog:
		if rapid.IntRange(0, 9).Draw(t, "nil?") > 0 {
			e.ValueLog = &manifest.ValueLogMeta{Bucket: gU32(t, "bucket"), FileID: gU32(t, "fid"), Offset: gU64(t, "off"), Valid: rapid.Bool().Draw(t, "valid")}
		}
	case manifest.EditRaftPointer:
		p := &manifest.RaftLogPointer{GroupID: gU64(t, "g"), Segment: gU32(t, "seg"), Offset: gU64(t, "off"), AppliedIndex: gU64(t, "ai"), AppliedTerm: gU64(t, "at"),
			Committed: gU64(t, "c"), SnapshotIndex: gU64(t, "si"), SnapshotTerm: gU64(t, "st")}
		if rapid.Bool().Draw(t, "trunc?") {
			p.TruncatedIndex, p.TruncatedTerm, p.SegmentIndex, p.TruncatedOffset = gU64(t, "ti"), gU64(t, "tt"), gU64(t, "sgi"), gU64(t, "to")
		}
		e.Raft = p
	case manifest.EditRegion:
		g := &manifest.RegionEdit{Meta: manifest.RegionMeta{ID: gU64(t, "id")}}
		if rapid.IntRange(0, 4).Draw(t, "delete?") == 0 {
			g.Delete = true
		} else {
			g.Meta.StartKey, g.Meta.EndKey = gBytes(t, "start", true), gBytes(t, "end", true)
			g.Meta.Epoch = manifest.RegionEpoch{Version: gU64(t, "ver"), ConfVersion: gU64(t, "conf")}
			g.Meta.State = manifest.RegionState(rapid.SampledFrom([]uint8{0, 1, 2, 3, 4, 255}).Draw(t, "state"))
			np := rapid.IntRange(0, 5).Draw(t, "peers")
			if rapid.IntRange(0, 19).Draw(t, "manypeers?") == 0 {
				np = rapid.SampledFrom([]int{127, 128, 129}).Draw(t, "peersbig")
			}
			for i := 0; i < np; i++ {
				if np > 5 {
					g.Meta.Peers = append(g.Meta.Peers, manifest.PeerMeta{StoreID: uint64(i), PeerID: uint64(i) << 40})
				} else {
					g.Meta.Peers = append(g.Meta.Peers, manifest.PeerMeta{StoreID: gU64(t, "store"), PeerID: gU64(t, "peer")})
				}
			}
		}
		e.Region = g
	}
	return ManifestCase{Edit: e, M: gMut(t)}
}

func genPerc(t *rapid.T) PercCase {
	var c PercCase
	c.Lock.Primary = gBytes(t, "primary", true)
	c.Lock.Ts, c.Lock.TTL, c.Lock.MinCommitTs = gU64(t, "ts"), gU64(t, "ttl"), gU64(t, "minc")
	c.Lock.Kind = rapid.SampledFrom([]uint8{0, 1, 2, 3, 4, 127, 128, 255}).Draw(t, "lkind")
	c.Write.Kind = rapid.SampledFrom([]uint8{0, 1, 2, 3, 4, 127, 128, 255}).Draw(t, "wkind")
	c.Write.StartTs = gU64(t, "start")
	c.Write.ShortValue = gBytes(t, "short", true)
	c.M = gMut(t)
	return c
}

func genRaft(t *rapid.T) RaftCase {
	var c RaftCase
	c.Group = gU64(t, "group")
	n := rapid.IntRange(0, 4).Draw(t, "nent")
	for i := 0; i < n; i++ {
		c.Entries = append(c.Entries, RaftEnt{Term: gU64(t, "term"), Index: gU64(t, "index"), Type: int32(rapid.IntRange(0, 2).Draw(t, "etype")), Data: gBytes(t, "data", i == 0)})
	}
	c.HS.Term, c.HS.Vote, c.HS.Commit = gU64(t, "hterm"), gU64(t, "vote"), gU64(t, "commit")
	c.Snap.Data = gBytes(t, "snap", true)
	c.Snap.Index, c.Snap.Term = gU64(t, "sidx"), gU64(t, "sterm")
	ids := func(l string) []uint64 {
		var o []uint64
		for i, k := 0, rapid.IntRange(0, 3).Draw(t, l+"#"); i < k; i++ {
			o = append(o, gU64(t, l))
		}
		return o
	}
	c.Snap.Voters, c.Snap.Learners, c.Snap.VotersOutgoing, c.Snap.LearnersNext = ids("voters"), ids("learners"), ids("vout"), ids("lnext")
	c.Snap.AutoLeave = rapid.Bool().Draw(t, "autoleave")
	c.M = gMut(t)
	return c
}

func genCmd(t *rapid.T) CmdCase {
	c := CmdCase{HasHeader: rapid.IntRange(0, 4).Draw(t, "hdr?") > 0, HasEpoch: rapid.Bool().Draw(t, "epoch?")}
	c.Region, c.Peer, c.ReqID, c.ConfVer, c.Version = gU64(t, "region"), gU64(t, "peer"), gU64(t, "req"), gU64(t, "confver"), gU64(t, "version")
	c.ReadQuorum = rapid.Bool().Draw(t, "rq")
	n := rapid.IntRange(0, 4).Draw(t, "nreq")
	for i := 0; i < n; i++ {
		q := ReqT{Which: rapid.IntRange(0, 7).Draw(t, "which")}
		q.CmdType = int32(q.Which)
		if rapid.IntRange(0, 5).Draw(t, "type?") == 0 {
			q.CmdType = int32(rapid.SampledFrom([]int{0, 7, 8, 127, 128, math.MaxInt32, -1}).Draw(t, "type"))
		}
		q.Key = gBytes(t, "key", i == 0)
		for j, k := 0, rapid.IntRange(0, 3).Draw(t, "nkeys"); j < k; j++ {
			q.Keys = append(q.Keys, gBytes(t, "keys", false))
		}
		for j := range q.U {
			q.U[j] = gU64(t, "u")
		}
		q.Limit = gU32(t, "limit")
		q.B1, q.B2 = rapid.Bool().Draw(t, "b1"), rapid.Bool().Draw(t, "b2")
		if q.Which == 3 {
			for j, k := 0, rapid.IntRange(0, 3).Draw(t, "nmut"); j < k; j++ {
				q.Muts = append(q.Muts, MutT{Op: int32(rapid.IntRange(0, 4).Draw(t, "op")), Key: gBytes(t, "mkey", false), Value: gBytes(t, "mval", false), Assert: rapid.Bool().Draw(t, "assert")})
			}
		}
		c.Reqs = append(c.Reqs, q)
	}
	c.M = gMut(t)
	return c
}

// ---- arbitrary / hostile byte strings

// token draws one building block of a hostile input.
func token(t *rapid.T) []byte {
	switch rapid.IntRange(0, 11).Draw(t, "tok") {
	case 0, 1:
		return []byte{rapid.Byte().Draw(t, "b")}
	case 2:
		return []byte{rapid.SampledFrom(byteEdges).Draw(t, "be")}
	case 3, 4:
		return uv(gU64(t, "v"))
	case 5:
		return rapid.SampledFrom(hostileVs).Draw(t, "hv")
	case 6: // a length that is slightly / moderately / far larger than anything present
		return uv(rapid.SampledFrom([]uint64{1, 2, 5, 17, 100, 1000, 1 << 14, 1<<14 + 1, 1 << 16, 1 << 17, 1 << 20, 1 << 22, 1 << 24, 1 << 26, 1<<26 + 1, 1 << 28, 1 << 31, 1 << 32, 1 << 40, 1 << 44, 1 << 47, 1 << 59, 1 << 60}).Draw(t, "len"))
	case 7:
		return rep(rapid.SampledFrom([]byte{0xff, 0x80, 0x00}).Draw(t, "rb"), rapid.IntRange(1, 12).Draw(t, "rn"))
	case 8:
		return le32(rapid.SampledFrom([]uint32{0, 1, 5, 6, 64, 1 << 14, 1 << 16, 1 << 20, 1 << 24, 1 << 26, 1<<26 + 1, 1 << 30, math.MaxUint32}).Draw(t, "le"))
	case 9:
		return rapid.SliceOfN(rapid.Byte(), 0, 16).Draw(t, "blob")
	case 10:
		return []byte(magic)
	}
	return []byte{1}
}

func genBytes(t *rapid.T) BytesCase {
	d := rapid.SampledFrom(allDecoders).Draw(t, "dec")
	c := BytesCase{Dec: d.name}
	seeds := d.seeds()
	switch rapid.IntRange(0, 9).Draw(t, "mode") {
	case 0: // unstructured
		c.Data = rapid.SliceOfN(rapid.Byte(), 0, 64).Draw(t, "raw")
	case 1, 2, 3: // tokens only
		for i, n := 0, rapid.IntRange(0, 8).Draw(t, "ntok"); i < n; i++ {
			c.Data = append(c.Data, token(t)...)
		}
	case 4, 5: // the first bytes of a seed (magic / version / type), then tokens
		s := rapid.SampledFrom(seeds).Draw(t, "seed")
		c.Data = append(c.Data, s[:min(len(s), rapid.IntRange(0, 8).Draw(t, "keep"))]...)
		if d == decEdit && rapid.Bool().Draw(t, "type?") {
			c.Data = cat(hdr(manifest.EditType(rapid.IntRange(0, 8).Draw(t, "etype"))))
		}
		for i, n := 0, rapid.IntRange(0, 10).Draw(t, "ntok"); i < n; i++ {
			c.Data = append(c.Data, token(t)...)
		}
	default: // splice tokens into a seed
		s := append([]byte(nil), rapid.SampledFrom(seeds).Draw(t, "seed")...)
		for i, n := 0, rapid.IntRange(1, 3).Draw(t, "nsplice"); i < n; i++ {
			pos := rapid.IntRange(0, len(s)).Draw(t, "pos")
			del := min(rapid.IntRange(0, 3).Draw(t, "del"), len(s)-pos)
			s = cat(s[:pos], token(t), s[pos+del:])
		}
		c.Data = s
	}
	if d == decFrame && rapid.IntRange(0, 2).Draw(t, "fixlen") == 0 && len(c.Data) >= 4 {
		// make the frame header agree with what follows so that the payload decoder is reached
		binary.LittleEndian.PutUint32(c.Data, uint32(len(c.Data)-4))
	}
	return c
}
