package c16

// Robustness oracle shared by every spec and by the native fuzz targets:
// a decoder fed with bytes must return (value,nil) or an error, must not panic,
// and must not allocate more than 64*len(input)+64KiB (TotalAlloc delta).

import (
	"encoding/hex"
	"encoding/json"
	"fmt"
	"runtime"
	"runtime/debug"
	"sort"
	"strings"
	"sync"

	"nokvverif/internal/pbt"
)

// HB is a byte string rendered as hex in replay files.
type HB []byte

func (h HB) MarshalJSON() ([]byte, error) { return json.Marshal(hex.EncodeToString(h)) }
func (h *HB) UnmarshalJSON(b []byte) error {
	var s string
	if err := json.Unmarshal(b, &s); err != nil {
		return err
	}
	d, err := hex.DecodeString(s)
	*h = d
	return err
}

func hx(b []byte) string {
	if len(b) > 400 {
		return hex.EncodeToString(b[:400]) + fmt.Sprintf("…(%d bytes)", len(b))
	}
	return hex.EncodeToString(b)
}

// allocBound is the stated tolerance of the property check.
func allocBound(n int) uint64 { return 64*uint64(n) + 64<<10 }

// Finding ids (known_findings.json / kf_draft.json).  A generator / screen asks
// pbt.Open(id) and steers away from the class while the finding is listed open.
const (
	fPercolator    = "C16-percolator-len"  // DecodeLock/DecodeWrite: pos+int(len) overflow -> slice panic
	fRaftLen       = "C16-raftlog-len"     // decodeRaftEntries/HardState/Snapshot: idx+int(size) overflow -> slice panic
	fManifestVar   = "C16-manifest-varint" // decodeEdit: Uvarint n<0 added to pos / readBytes int(length) overflow -> slice panic
	fManifestPeers = "C16-manifest-peers"  // decodeEdit: make([]PeerMeta,0,peersCount) from the wire
	fManifestFrame = "C16-manifest-frame"  // readEdit: make([]byte,length) from the 4-byte frame header before reading
	fEntryAlloc    = "C16-entry-alloc"     // DecodeEntryFrom: make([]byte,keyLen/valueLen) from the header before reading
	fValueStruct   = "C16-valuestruct"     // ValueStruct.DecodeValue: index panic on empty buffer / overflowing varint
)

// scr is the verdict of a structural pre-screen.
type scr struct {
	excl   string // id of the finding class the input falls into ("" = none)
	fields int    // number of fields the decoder can consume before deciding (non-trivial rule)
	danger bool   // the declared allocation is large enough to endanger the process (> dangerCap)
}

const (
	hostileMin = 16 << 10 // declared lengths below this stay inside the 64 KiB slack even when unbacked
	dangerCap  = 64 << 20 // declared allocations above this are never handed to a decoder found vulnerable
)

// hostileLen: the declared length is not backed by input and is large enough to matter.
func hostileLen(declared uint64, avail int) bool {
	return declared > uint64(avail) && declared > hostileMin
}

type decoder struct {
	name   string
	run    func(b []byte) error
	screen func(b []byte) scr
	seeds  func() [][]byte // valid encodings + hostile constants (static cases, fuzz corpus)
}

var (
	msMu     sync.Mutex
	ms1, ms2 runtime.MemStats
)

// protect runs f converting a panic into (value, stack).
func protect(f func()) (pan any, stack string) {
	defer func() {
		if p := recover(); p != nil {
			pan = p
			stack = string(debug.Stack())
		}
	}()
	f()
	return nil, ""
}

// allocOf measures the bytes allocated while f runs (cumulative counter, exact:
// ReadMemStats stops the world and flushes the per-P caches).
func allocOf(f func()) uint64 {
	msMu.Lock()
	defer msMu.Unlock()
	runtime.ReadMemStats(&ms1)
	f()
	runtime.ReadMemStats(&ms2)
	return ms2.TotalAlloc - ms1.TotalAlloc
}

func shortStack(s string) string {
	l := strings.Split(s, "\n")
	var keep []string
	for _, x := range l {
		if strings.Contains(x, "NoKV") || strings.Contains(x, "panic") {
			keep = append(keep, strings.TrimSpace(x))
		}
		if len(keep) >= 8 {
			break
		}
	}
	return strings.Join(keep, "\n  ")
}

// admit applies the pre-screen: it reports whether the input may be handed to the
// real decoder and records exclusions.
func admit(d *decoder, in []byte, r *pbt.Rec) (ok bool, s scr) {
	in = clip(in)
	if d.screen == nil {
		return true, scr{fields: min(len(in), 1)}
	}
	s = d.screen(in)
	if s.excl == "" {
		return true, s
	}
	if pbt.Open(s.excl) || (s.danger && vulnerable(s.excl)) {
		if r != nil {
			r.Excluded(1)
			r.Label("excluded:" + s.excl)
		}
		return false, s
	}
	return true, s
}

// checkOne runs one input through one decoder with individual measurement.
func checkOne(d *decoder, in []byte, r *pbt.Rec) error {
	ok, s := admit(d, in, r)
	if !ok {
		return nil
	}
	if r != nil && s.fields >= 1 {
		r.NT()
	}
	return measureOne(d, in)
}

// clip limits the capacity of an input to its length, so that a decoder reading
// past the end of a truncated input faults instead of silently seeing the bytes
// of the longer buffer the truncation was cut from.
func clip(in []byte) []byte { return in[:len(in):len(in)] }

func measureOne(d *decoder, in []byte) error {
	in = clip(in)
	var pan any
	var stack string
	delta := allocOf(func() { pan, stack = protect(func() { _ = d.run(in) }) })
	if pan != nil {
		return pbt.Failf("panic:"+d.name, "decoder %s panicked on %d bytes %s: %v\n  %s", d.name, len(in), hx(in), pan, shortStack(stack))
	}
	if delta > allocBound(len(in)) {
		// re-measure: a deterministic decoder allocates the same every time; take the minimum
		for i := 0; i < 2; i++ {
			d2 := allocOf(func() { _, _ = protect(func() { _ = d.run(in) }) })
			if d2 < delta {
				delta = d2
			}
		}
		if delta > allocBound(len(in)) {
			return pbt.Failf("alloc:"+d.name, "decoder %s allocated %d bytes for %d input bytes %s (bound %d)", d.name, delta, len(in), hx(in), allocBound(len(in)))
		}
	}
	return nil
}

// checkBatch runs many inputs through one decoder.  Inputs are measured in chunks
// (ascending length): a chunk whose total TotalAlloc delta stays within the bound
// of its shortest member proves every member within its own bound; otherwise the
// members are measured one by one.  Chunks are sized so that a decoder allocating
// about 2x its input stays below the chunk bound.
func checkBatch(d *decoder, inputs [][]byte, r *pbt.Rec) error {
	adm := inputs[:0:0]
	for _, in := range inputs {
		if ok, _ := admit(d, in, r); ok {
			adm = append(adm, clip(in))
		}
	}
	if len(adm) == 0 {
		return nil
	}
	r.LabelN("robust-inputs:"+d.name, len(adm))
	sort.SliceStable(adm, func(i, j int) bool { return len(adm[i]) < len(adm[j]) })
	for lo := 0; lo < len(adm); {
		budget := allocBound(len(adm[lo])) / 2
		hi, sum := lo, uint64(0)
		for hi < len(adm) && (hi == lo || sum+2*uint64(len(adm[hi]))+256 <= budget) {
			sum += 2*uint64(len(adm[hi])) + 256
			hi++
		}
		chunk := adm[lo:hi]
		lo = hi
		var (
			pan   any
			stack string
			bad   []byte
		)
		delta := allocOf(func() {
			for _, in := range chunk {
				if pan, stack = protect(func() { _ = d.run(in) }); pan != nil {
					bad = in
					return
				}
			}
		})
		if pan != nil {
			return pbt.Failf("panic:"+d.name, "decoder %s panicked on %d bytes %s: %v\n  %s", d.name, len(bad), hx(bad), pan, shortStack(stack))
		}
		if delta <= allocBound(len(chunk[0])) {
			continue
		}
		for _, in := range chunk {
			if err := measureOne(d, in); err != nil {
				return err
			}
		}
	}
	return nil
}

// ---- vulnerability probes for the allocation class (process safety)
//
// A decoder that sizes an allocation from an unchecked wire length would be asked
// for gigabytes (or terabytes: fatal, unrecoverable) by hostile inputs.  Each
// allocation-class finding has a probe input declaring 8 MiB backed by nothing;
// if the decoder allocates out of proportion for it, inputs declaring more than
// dangerCap are withheld from it in this process.  Moderate hostile lengths still
// reach the decoder (and are reported) unless the finding is listed open.

var (
	probeOnce sync.Once
	probeRes  = map[string]bool{}
)

func vulnerable(id string) bool {
	probeOnce.Do(func() {
		for id, p := range probes() {
			d, in := p.d, p.in
			var pan any
			delta := allocOf(func() { pan, _ = protect(func() { _ = d.run(in) }) })
			probeRes[id] = pan != nil || delta > allocBound(len(in))
		}
	})
	return probeRes[id]
}

type probe struct {
	d  *decoder
	in []byte
}
