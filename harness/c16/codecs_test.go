package c16

// Decoder registry: the real decoders under test, their structural pre-screens
// (which classify an input into an open finding class, nothing else) and the seed
// corpus (valid encodings of fixed values + hostile constants).

import (
	"bytes"
	"encoding/binary"
	"io"
	"math"
	"testing/iotest"

	"github.com/feichai0017/NoKV/kv"
	"github.com/feichai0017/NoKV/manifest"
	"github.com/feichai0017/NoKV/pb"
	"github.com/feichai0017/NoKV/percolator"
	myraft "github.com/feichai0017/NoKV/raft"
	"github.com/feichai0017/NoKV/raftstore/command"
	"github.com/feichai0017/NoKV/raftstore/engine"
	raftpb "go.etcd.io/raft/v3/raftpb"
)

func uv(vals ...uint64) []byte {
	var b []byte
	for _, v := range vals {
		b = binary.AppendUvarint(b, v)
	}
	return b
}

func cat(parts ...[]byte) []byte {
	var b []byte
	for _, p := range parts {
		b = append(b, p...)
	}
	return b
}

func le32(v uint32) []byte { return binary.LittleEndian.AppendUint32(nil, v) }

func rep(b byte, n int) []byte { return bytes.Repeat([]byte{b}, n) }

// hostile varint spellings
var (
	vMax      = uv(math.MaxUint64)          // 10 bytes, valid
	vMaxInt   = uv(math.MaxInt64)           // 9 bytes, int(v) > 0 but pos+int(v) overflows
	vMinInt   = uv(1 << 63)                 // int(v) == MinInt64
	vOver10   = append(rep(0xff, 9), 0x02)  // 10th byte > 1: overflow, n = -10
	vOver11   = append(rep(0xff, 10), 0x01) // 11 bytes: overflow, n = -11
	vUnterm   = rep(0x80, 4)                // unterminated
	vNonMin   = []byte{0x80, 0x00}          // non-minimal zero
	vLen8M    = uv(8 << 20)                 // probe size
	vLen1G    = uv(1 << 30)                 // dangerous when unchecked
	vLen4Gm1  = uv(math.MaxUint32)          //
	vLenPeers = uv(1 << 19)                 // 512Ki peers * 16 B = 8 MiB
	vLenTiB   = uv(1 << 40)                 // make() of this many 16-byte elements is fatal when unchecked
	hostileVs = [][]byte{vMax, vMaxInt, vMinInt, vOver10, vOver11, vUnterm, vNonMin, vLen8M, vLen1G, vLen4Gm1, vLenTiB}
)

// ---------------------------------------------------------------- entry records

func mustEntry(key, val []byte, meta byte, exp uint64) []byte {
	enc, err := kv.EncodeEntry(nil, &kv.Entry{Key: key, Value: val, Meta: meta, ExpiresAt: exp})
	if err != nil {
		panic(err)
	}
	return append([]byte(nil), enc...)
}

// screenEntry mirrors the header walk of DecodeEntryFrom.
func screenEntry(b []byte) scr {
	pos := 0
	var f [4]uint64
	for i := range f {
		v, n := binary.Uvarint(b[pos:])
		if n <= 0 {
			return scr{fields: i}
		}
		f[i] = v
		pos += n
	}
	if f[2] > math.MaxUint8 {
		return scr{fields: 3}
	}
	kl, vl := uint64(uint32(f[0])), uint64(uint32(f[1]))
	avail := len(b) - pos
	if hostileLen(kl, avail) {
		return scr{excl: fEntryAlloc, fields: 4, danger: kl > dangerCap}
	}
	if kl <= uint64(avail) && hostileLen(vl, avail-int(kl)) {
		return scr{excl: fEntryAlloc, fields: 4, danger: vl > dangerCap}
	}
	return scr{fields: 4}
}

func entrySeeds() [][]byte {
	ik := kv.InternalKey(kv.CFDefault, []byte("key"), 7)
	s := [][]byte{
		mustEntry(nil, nil, 0, 0),
		mustEntry(ik, []byte("value"), 0, 0),
		mustEntry(ik, rep('v', 200), kv.BitValuePointer, math.MaxUint64),
		mustEntry(kv.InternalKey(kv.CFLock, nil, math.MaxUint64), nil, 0xff, 1),
		cat(uv(8<<20, 0, 0, 0)),                // probe: keyLen 8 MiB, no body
		cat(uv(0, 8<<20, 0, 0), []byte{1, 2}),  // valueLen 8 MiB
		cat(uv(1<<30, 0, 0, 0), []byte("abc")), // 1 GiB key
		cat(uv(math.MaxUint32, math.MaxUint32, 0, 0)),
		cat(uv(1<<32, 1<<32+3, 0, 0), []byte("abc"), rep(0, 4)), // lengths truncated to uint32
		cat(uv(3, 3, 256, 0)),                                   // meta overflow
		cat(vOver10, vOver11),
		cat(uv(1, 1), vMax, vMax),
	}
	return s
}

var decEntry = &decoder{
	name: "entry",
	run: func(b []byte) error {
		e, err := kv.DecodeEntry(b)
		if err == nil {
			e.DecrRef()
		}
		return err
	},
	screen: screenEntry,
	seeds:  entrySeeds,
}

// entry-stream: DecodeEntryFrom over a reader that hands out one byte at a time,
// decoding records until the stream ends.
var decEntryStream = &decoder{
	name: "entry-stream",
	run: func(b []byte) error {
		var r io.Reader = bytes.NewReader(b)
		if len(b) <= 600 {
			r = iotest.OneByteReader(r)
		} else {
			r = iotest.HalfReader(r)
		}
		for i := 0; i < 8; i++ {
			e, _, err := kv.DecodeEntryFrom(r)
			if err != nil {
				return err
			}
			e.DecrRef()
		}
		return nil
	},
	// only the first record's header is screened; later records start at positions only the
	// decoder knows, so the screen walks them as the decoder does: record by record.
	screen: func(b []byte) scr {
		first := screenEntry(b)
		s := first
		off := 0
		for i := 0; i < 8 && s.excl == "" && s.fields == 4; i++ {
			// advance over a complete record
			pos := off
			var f [2]uint64
			for j := 0; j < 4; j++ {
				v, n := binary.Uvarint(b[pos:])
				if j < 2 {
					f[j] = v
				}
				pos += n
			}
			end := pos + int(uint32(f[0])) + int(uint32(f[1])) + 4
			if end > len(b) || end < pos {
				break
			}
			off = end
			s = screenEntry(b[off:])
		}
		if s.excl != "" {
			return scr{excl: s.excl, danger: s.danger, fields: 4}
		}
		return first
	},
	seeds: func() [][]byte {
		s := entrySeeds()
		s = append(s, cat(s[1], s[2], s[0]))
		s = append(s, cat(s[1], uv(8<<20, 0, 0, 0)))
		return s
	},
}

var decValueSlice = &decoder{
	name: "valueslice",
	run: func(b []byte) error {
		_, _, err := kv.DecodeValueSlice(b)
		return err
	},
	seeds: entrySeeds,
}

var decHeader = &decoder{
	name: "entry-header",
	run: func(b []byte) error {
		var h kv.EntryHeader
		_, err := h.Decode(b)
		var h2 kv.EntryHeader
		_, err2 := h2.DecodeFrom(kv.NewHashReader(bytes.NewReader(b)))
		if err == nil {
			return err2
		}
		return err
	},
	seeds: func() [][]byte {
		return [][]byte{uv(0, 0, 0, 0), uv(3, 5, 2, 99), uv(math.MaxUint32, math.MaxUint32, 255, math.MaxUint64),
			uv(1, 2, 256, 0), cat(vOver10, uv(0, 0, 0)), cat(uv(1, 2, 3), vUnterm), vMax}
	},
}

// ---------------------------------------------------------------- value struct / pointer

func screenValueStruct(b []byte) scr {
	if len(b) == 0 {
		return scr{excl: fValueStruct}
	}
	if _, n := binary.Uvarint(b[1:]); n < 0 {
		return scr{excl: fValueStruct, fields: 1}
	}
	return scr{fields: 2}
}

var decValueStruct = &decoder{
	name: "valuestruct",
	run: func(b []byte) error {
		var vs kv.ValueStruct
		vs.DecodeValue(b)
		return nil
	},
	screen: screenValueStruct,
	seeds: func() [][]byte {
		enc := func(vs kv.ValueStruct) []byte {
			b := make([]byte, vs.EncodedSize())
			return b[:vs.EncodeValue(b)]
		}
		return [][]byte{
			enc(kv.ValueStruct{}), enc(kv.ValueStruct{Meta: 1, ExpiresAt: math.MaxUint64, Value: []byte("v")}),
			enc(kv.ValueStruct{Meta: kv.BitValuePointer, Value: kv.ValuePtr{Len: 1, Offset: 2, Fid: 3, Bucket: 4}.Encode()}),
			{}, {0}, cat([]byte{0}, vOver10), cat([]byte{0}, vOver11, []byte("x")), cat([]byte{0}, vUnterm),
		}
	},
}

var decValuePtr = &decoder{
	name: "valueptr",
	run: func(b []byte) error {
		var p kv.ValuePtr
		p.Decode(b)
		return nil
	},
	seeds: func() [][]byte {
		return [][]byte{kv.ValuePtr{}.Encode(), kv.ValuePtr{Len: math.MaxUint32, Offset: 1, Fid: 2, Bucket: math.MaxUint32}.Encode(), {}, rep(0xff, 15), rep(0xff, 17)}
	},
}

// ---------------------------------------------------------------- keys

var decKeys = &decoder{
	name: "keys",
	run: func(b []byte) error {
		_ = kv.ParseKey(b)
		_ = kv.ParseTs(b)
		_, _, _ = kv.SplitInternalKey(b)
		_, _, _ = kv.DecodeKeyCF(b)
		_ = kv.SameKey(b, b)
		return nil
	},
	seeds: func() [][]byte {
		return [][]byte{{}, {0xff}, {0xff, 'C', 'F'}, {0xff, 'C', 'F', 2}, {0xff, 'C', 'F', 3}, rep(0, 7), rep(0, 8), rep(0xff, 9),
			kv.InternalKey(kv.CFWrite, []byte("k"), 1), kv.InternalKey(kv.CFDefault, nil, math.MaxUint64), kv.KeyWithTs([]byte("plain"), 5)}
	},
}

// ---------------------------------------------------------------- manifest edits

const magic = "NoKV"

// editWalk mirrors the field grammar of manifest.decodeEdit up to the first event
// belonging to a finding class.  Benign failures (short varint n==0, length larger
// than the remaining bytes) are followed exactly as the decoder follows them.
type editWalk struct {
	d      []byte
	pos    int
	fields int
	excl   string
	danger bool
	stop   bool
	region bool // a varint-class event inside a region edit could let an unrepaired decoder run on into the peer-count make()
}

func (w *editWalk) hit(id string, danger bool) {
	w.stop = true
	w.excl, w.danger = id, danger
}

func (w *editWalk) uv() uint64 {
	if w.stop {
		return 0
	}
	v, n := binary.Uvarint(w.d[w.pos:])
	if n < 0 {
		w.hit(fManifestVar, w.region)
		return 0
	}
	if n > 0 {
		w.fields++
	}
	w.pos += n
	return v
}

func (w *editWalk) bytes() {
	if w.stop {
		return
	}
	sub := w.d[w.pos:]
	l, n := binary.Uvarint(sub)
	if n <= 0 {
		w.pos += len(sub)
		return
	}
	end := n + int(l)
	if int(l) < 0 || end < n {
		w.hit(fManifestVar, w.region)
		return
	}
	if end > len(sub) {
		w.pos += len(sub)
		return
	}
	w.fields++
	w.pos += end
}

func (w *editWalk) byteIf() {
	if !w.stop && w.pos < len(w.d) {
		w.pos++
	}
}

func screenEdit(d []byte) scr {
	if len(d) < len(magic)+1 || string(d[:len(magic)]) != magic {
		return scr{}
	}
	w := &editWalk{d: d, pos: len(magic) + 1, region: manifest.EditType(d[len(magic)]) == manifest.EditRegion}
	n := len(d)
	switch manifest.EditType(d[len(magic)]) {
	case manifest.EditAddFile, manifest.EditDeleteFile:
		w.uv()
		w.uv()
		w.uv()
		w.bytes()
		w.bytes()
		w.uv()
		if !w.stop && w.pos < n {
			w.uv()
		}
	case manifest.EditLogPointer:
		w.uv()
		w.uv()
	case manifest.EditValueLogHead, manifest.EditUpdateValueLog:
		if w.pos < n {
			w.uv()
			w.uv()
			w.uv()
		}
	case manifest.EditDeleteValueLog:
		if w.pos < n {
			w.uv()
			w.uv()
		}
	case manifest.EditRaftPointer:
		for i := 0; i < 8; i++ {
			w.uv()
		}
		for i := 0; i < 4; i++ {
			if !w.stop && w.pos < n {
				w.uv()
			}
		}
	case manifest.EditRegion:
		w.uv()
		if w.stop {
			break
		}
		if w.pos < n {
			del := d[w.pos] == 1
			w.pos++
			if del {
				break
			}
		}
		w.bytes()
		w.bytes()
		w.uv()
		w.uv()
		w.byteIf()
		if w.stop {
			break
		}
		var peers uint64
		if w.pos < n {
			peers = w.uv()
		}
		if w.stop {
			break
		}
		// Each peer needs >= 2 bytes; a count not backed by input and large enough to
		// leave the 64 KiB slack (16 B per element, allocated twice) is the peers class.
		if peers > uint64(n-w.pos)/2 && peers > hostileMin/32 {
			w.hit(fManifestPeers, peers > dangerCap/16)
			break
		}
		for i := uint64(0); i < peers && !w.stop; i++ {
			w.uv()
			w.uv()
		}
	}
	return scr{excl: w.excl, fields: w.fields, danger: w.danger}
}

func mustEdit(e manifest.Edit) []byte {
	b, err := manifest.VerifEncodeEdit(e)
	if err != nil {
		panic(err)
	}
	return b
}

func seedEdits() []manifest.Edit {
	return []manifest.Edit{
		{Type: manifest.EditAddFile, File: &manifest.FileMeta{Level: 3, FileID: 9, Size: 4096, Smallest: kv.InternalKey(kv.CFDefault, []byte("a"), 9), Largest: kv.InternalKey(kv.CFDefault, []byte("zzzzzzzz"), 1), CreatedAt: 1700000000, ValueSize: 77, Ingest: true}},
		{Type: manifest.EditDeleteFile, File: &manifest.FileMeta{FileID: math.MaxUint64}},
		{Type: manifest.EditLogPointer, LogSeg: 5, LogOffset: 1 << 40},
		{Type: manifest.EditValueLogHead, ValueLog: &manifest.ValueLogMeta{Bucket: 1, FileID: 2, Offset: 3, Valid: true}},
		{Type: manifest.EditDeleteValueLog, ValueLog: &manifest.ValueLogMeta{Bucket: 1, FileID: 2}},
		{Type: manifest.EditUpdateValueLog, ValueLog: &manifest.ValueLogMeta{Bucket: 1, FileID: 2, Offset: math.MaxUint64, Valid: true}},
		{Type: manifest.EditRaftPointer, Raft: &manifest.RaftLogPointer{GroupID: 1, Segment: 2, Offset: 3, AppliedIndex: 4, AppliedTerm: 5, Committed: 6, SnapshotIndex: 7, SnapshotTerm: 8, TruncatedIndex: 9, TruncatedTerm: 10, SegmentIndex: 11, TruncatedOffset: 12}},
		{Type: manifest.EditRegion, Region: &manifest.RegionEdit{Meta: manifest.RegionMeta{ID: 7, StartKey: []byte("a"), EndKey: []byte("m"), Epoch: manifest.RegionEpoch{Version: 2, ConfVersion: 3}, State: manifest.RegionStateRunning, Peers: []manifest.PeerMeta{{StoreID: 1, PeerID: 11}, {StoreID: 2, PeerID: 12}, {StoreID: 3, PeerID: 13}}}}},
		{Type: manifest.EditRegion, Region: &manifest.RegionEdit{Meta: manifest.RegionMeta{ID: 7}, Delete: true}},
	}
}

func hdr(t manifest.EditType) []byte { return append([]byte(magic), byte(t)) }

// regionPrefix is a region edit up to (excluding) the peer count.
func regionPrefix() []byte {
	return cat(hdr(manifest.EditRegion), uv(1), []byte{0}, uv(0), uv(0), uv(0, 0), []byte{1})
}

func editPayloadSeeds() [][]byte {
	var s [][]byte
	for _, e := range seedEdits() {
		s = append(s, mustEdit(e)[4:])
	}
	s = append(s,
		cat(hdr(manifest.EditLogPointer), vOver11),                           // pos += -11 -> negative index
		cat(hdr(manifest.EditLogPointer), vOver10),                           //
		cat(hdr(manifest.EditAddFile), uv(1, 2, 3), vMax, []byte("x")),       // readBytes int(length) == -1
		cat(hdr(manifest.EditAddFile), uv(1, 2, 3), vMaxInt, []byte("x")),    // n+int(length) overflows
		cat(hdr(manifest.EditRaftPointer), uv(1, 2, 3, 4, 5, 6, 7), vOver11), //
		cat(hdr(manifest.EditRegion), uv(1), []byte{0}, vMinInt),             //
		cat(regionPrefix(), vLenPeers),                                       // probe: 512Ki peers, none present
		cat(regionPrefix(), uv(1<<16)),                                       //
		cat(regionPrefix(), vLenTiB),                                         // fatal when unchecked
		cat(regionPrefix(), vMax),                                            // makeslice: cap out of range
		cat(regionPrefix(), uv(3), uv(1, 2, 3)),                              // truncated peer list
		hdr(manifest.EditRegion), hdr(manifest.EditRaftPointer), hdr(manifest.EditAddFile), hdr(9), []byte(magic),
	)
	return s
}

var decEdit = &decoder{
	name: "manifest-edit",
	run: func(b []byte) error {
		_, err := manifest.VerifDecodeEdit(b)
		return err
	},
	screen: screenEdit,
	seeds:  editPayloadSeeds,
}

func screenFrame(b []byte) scr {
	if len(b) < 4 {
		return scr{}
	}
	l := uint64(binary.LittleEndian.Uint32(b))
	avail := len(b) - 4
	if hostileLen(l, avail) {
		return scr{excl: fManifestFrame, fields: 1, danger: l > dangerCap}
	}
	if l > uint64(avail) {
		return scr{fields: 1}
	}
	s := screenEdit(b[4 : 4+int(l)])
	s.fields++
	return s
}

var decFrame = &decoder{
	name: "manifest-frame",
	run: func(b []byte) error {
		_, _, err := manifest.VerifReadEdit(b)
		return err
	},
	screen: screenFrame,
	seeds: func() [][]byte {
		var s [][]byte
		for _, e := range seedEdits() {
			s = append(s, mustEdit(e))
		}
		s = append(s, cat(s[0], s[2]))
		s = append(s,
			le32(8<<20),                     // probe: 8 MiB frame, nothing follows
			cat(le32(1<<30), []byte(magic)), //
			le32(math.MaxUint32),            //
			cat(le32(1<<16), hdr(2)),        //
			cat(le32(5), hdr(2)), cat(le32(4), hdr(2)), le32(0), []byte{1, 0, 0},
		)
		for _, p := range editPayloadSeeds()[len(seedEdits()):] {
			s = append(s, cat(le32(uint32(len(p))), p))
		}
		return s
	},
}

// ---------------------------------------------------------------- percolator lock / write

func screenLock(b []byte) scr {
	if len(b) == 0 || b[0] != 1 {
		return scr{}
	}
	pos := 1
	l, n := binary.Uvarint(b[pos:])
	if n <= 0 {
		return scr{fields: 1}
	}
	pos += n
	if e := pos + int(l); e < pos {
		return scr{excl: fPercolator, fields: 2}
	}
	return scr{fields: 2}
}

func screenWrite(b []byte) scr {
	if len(b) < 3 || b[0] != 1 {
		return scr{}
	}
	pos := 2
	_, n := binary.Uvarint(b[pos:])
	if n <= 0 {
		return scr{fields: 2}
	}
	pos += n
	if pos >= len(b) || b[pos] != 1 {
		return scr{fields: 3}
	}
	pos++
	l, n := binary.Uvarint(b[pos:])
	if n <= 0 {
		return scr{fields: 4}
	}
	pos += n
	if e := pos + int(l); e < pos {
		return scr{excl: fPercolator, fields: 5}
	}
	return scr{fields: 5}
}

var decLock = &decoder{
	name: "lock",
	run: func(b []byte) error {
		_, err := percolator.DecodeLock(b)
		return err
	},
	screen: screenLock,
	seeds: func() [][]byte {
		return [][]byte{
			percolator.EncodeLock(percolator.Lock{}),
			percolator.EncodeLock(percolator.Lock{Primary: []byte("primary"), Ts: 10, TTL: 3000, Kind: pb.Mutation_Put, MinCommitTs: 11}),
			percolator.EncodeLock(percolator.Lock{Primary: rep('p', 130), Ts: math.MaxUint64, TTL: math.MaxUint64, Kind: pb.Mutation_Lock, MinCommitTs: math.MaxUint64}),
			cat([]byte{1}, vMax), cat([]byte{1}, vMaxInt), cat([]byte{1}, vMinInt, []byte("abc")), cat([]byte{1}, vOver10),
			cat([]byte{1}, uv(1<<30), []byte("abc")), cat([]byte{1}, uv(3), []byte("abc"), vOver11), {1}, {2, 0}, {},
		}
	},
}

var decWrite = &decoder{
	name: "write",
	run: func(b []byte) error {
		_, err := percolator.DecodeWrite(b)
		return err
	},
	screen: screenWrite,
	seeds: func() [][]byte {
		return [][]byte{
			percolator.EncodeWrite(percolator.Write{}),
			percolator.EncodeWrite(percolator.Write{Kind: pb.Mutation_Put, StartTs: 10, ShortValue: []byte("short")}),
			percolator.EncodeWrite(percolator.Write{Kind: pb.Mutation_Rollback, StartTs: math.MaxUint64}),
			cat([]byte{1, 0}, uv(5), []byte{1}, vMax), cat([]byte{1, 0}, uv(5), []byte{1}, vMaxInt), cat([]byte{1, 0}, uv(5), []byte{1}, vMinInt, []byte("x")),
			cat([]byte{1, 0}, uv(5), []byte{1}, uv(1<<30)), cat([]byte{1, 0}, vOver10), cat([]byte{1, 0}, uv(5), []byte{1}), {1, 0, 0}, {1, 0}, {2, 0, 0},
		}
	},
}

// ---------------------------------------------------------------- raft WAL payloads

func screenRaftSized(b []byte) scr { // group | size | body
	pos, fields := 0, 0
	var l uint64
	for i := 0; i < 2; i++ {
		if pos >= len(b) {
			return scr{fields: fields}
		}
		v, n := binary.Uvarint(b[pos:])
		if n <= 0 {
			return scr{fields: fields}
		}
		pos += n
		fields++
		l = v
	}
	if e := pos + int(l); e < pos {
		return scr{excl: fRaftLen, fields: fields}
	}
	return scr{fields: fields}
}

func screenRaftEntries(b []byte) scr { // group | count | (size | entry)*
	pos, fields := 0, 0
	rd := func() (uint64, bool) {
		if pos >= len(b) {
			return 0, false
		}
		v, n := binary.Uvarint(b[pos:])
		if n <= 0 {
			return 0, false
		}
		pos += n
		fields++
		return v, true
	}
	if _, ok := rd(); !ok {
		return scr{fields: fields}
	}
	count, ok := rd()
	if !ok || count > uint64(len(b)) {
		return scr{fields: fields}
	}
	for i := uint64(0); i < count; i++ {
		l, ok := rd()
		if !ok {
			break
		}
		e := pos + int(l)
		if e < pos {
			return scr{excl: fRaftLen, fields: fields}
		}
		if e > len(b) {
			break
		}
		var ent raftpb.Entry
		if ent.Unmarshal(b[pos:e]) != nil {
			break
		}
		pos = e
	}
	return scr{fields: fields}
}

func mustRaftEntries(g uint64, ents []myraft.Entry) []byte {
	b, err := engine.VerifEncodeRaftEntries(g, ents)
	if err != nil {
		panic(err)
	}
	return b
}

var decRaftEntries = &decoder{
	name: "raft-entries",
	run: func(b []byte) error {
		_, _, err := engine.VerifDecodeRaftEntries(b)
		return err
	},
	screen: screenRaftEntries,
	seeds: func() [][]byte {
		return [][]byte{
			mustRaftEntries(0, nil),
			mustRaftEntries(7, []myraft.Entry{{Term: 1, Index: 1, Data: []byte("hello")}, {Term: 1, Index: 2, Type: raftpb.EntryConfChange}, {Term: math.MaxUint64, Index: math.MaxUint64, Data: rep(0xce, 40)}}),
			cat(uv(1, 1), vMax), cat(uv(1, 1), vMaxInt), cat(uv(1, 2), uv(0), vMinInt), cat(uv(1), vMax), cat(uv(1, 40), rep(0, 40)),
			cat(uv(1, 1), uv(1<<30), []byte("abc")), cat(uv(1, 1), vOver10), cat(vOver11), uv(1), {},
		}
	},
}

var decRaftHardState = &decoder{
	name: "raft-hardstate",
	run: func(b []byte) error {
		_, _, err := engine.VerifDecodeRaftHardState(b)
		return err
	},
	screen: screenRaftSized,
	seeds: func() [][]byte {
		a, _ := engine.VerifEncodeRaftHardState(1, myraft.HardState{})
		b, _ := engine.VerifEncodeRaftHardState(math.MaxUint64, myraft.HardState{Term: 5, Vote: 2, Commit: math.MaxUint64})
		return [][]byte{a, b, cat(uv(1), vMax), cat(uv(1), vMaxInt), cat(uv(1), vMinInt, []byte("x")), cat(uv(1), uv(1<<30)), cat(uv(1), vOver10), uv(1), {}}
	},
}

var decRaftSnapshot = &decoder{
	name: "raft-snapshot",
	run: func(b []byte) error {
		_, _, err := engine.VerifDecodeRaftSnapshot(b)
		return err
	},
	screen: screenRaftSized,
	seeds: func() [][]byte {
		a, _ := engine.VerifEncodeRaftSnapshot(1, myraft.Snapshot{})
		b, _ := engine.VerifEncodeRaftSnapshot(9, myraft.Snapshot{Data: []byte("snapdata"), Metadata: raftpb.SnapshotMetadata{Index: 10, Term: 3, ConfState: raftpb.ConfState{Voters: []uint64{1, 2, 3}, Learners: []uint64{4}, AutoLeave: true}}})
		return [][]byte{a, b, cat(uv(1), vMax), cat(uv(1), vMaxInt), cat(uv(1), vMinInt, []byte("x")), cat(uv(1), uv(1<<30)), cat(uv(1), vOver11), uv(1), {}}
	},
}

// ---------------------------------------------------------------- raft command frames

var decCommand = &decoder{
	name: "command",
	run: func(b []byte) error {
		_, _, err := command.Decode(b)
		return err
	},
	screen: func(b []byte) scr {
		if len(b) == 0 || b[0] != command.PayloadPrefix {
			return scr{}
		}
		return scr{fields: min(len(b)-1, 1) + 1}
	},
	seeds: func() [][]byte {
		mk := func(r *pb.RaftCmdRequest) []byte {
			b, err := command.Encode(r)
			if err != nil {
				panic(err)
			}
			return b
		}
		return [][]byte{
			mk(&pb.RaftCmdRequest{}),
			mk(&pb.RaftCmdRequest{Header: &pb.CmdHeader{RegionId: 1, RegionEpoch: &pb.RegionEpoch{ConfVer: 1, Version: 2}, PeerId: 3, RequestId: 4},
				Requests: []*pb.Request{{CmdType: pb.CmdType_CMD_GET, Cmd: &pb.Request_Get{Get: &pb.GetRequest{Key: []byte("k"), Version: 9}}},
					{CmdType: pb.CmdType_CMD_PREWRITE, Cmd: &pb.Request_Prewrite{Prewrite: &pb.PrewriteRequest{Mutations: []*pb.Mutation{{Op: pb.Mutation_Put, Key: []byte("k"), Value: []byte("v")}}, PrimaryLock: []byte("k"), StartVersion: 5, LockTtl: 3000}}}}}),
			cat([]byte{0xCE}, rep(0x12, 1), vMax), cat([]byte{0xCE}, []byte{0x12}, uv(1<<30)), cat([]byte{0xCE}, rep(0x12, 200)),
			cat([]byte{0xCE}, bytes.Repeat([]byte{0x12, 0x00}, 200)), {0xCE}, {0xCD, 1, 2}, {},
		}
	},
}

var allDecoders = []*decoder{decEntry, decEntryStream, decValueSlice, decHeader, decValueStruct, decValuePtr, decKeys,
	decEdit, decFrame, decLock, decWrite, decRaftEntries, decRaftHardState, decRaftSnapshot, decCommand}

func decoderByName(n string) *decoder {
	for _, d := range allDecoders {
		if d.name == n {
			return d
		}
	}
	return nil
}

// probes: one unbacked 8 MiB declaration per allocation-class finding.
func probes() map[string]probe {
	return map[string]probe{
		fEntryAlloc:    {decEntry, uv(8<<20, 0, 0, 0)},
		fManifestFrame: {decFrame, le32(8 << 20)},
		fManifestPeers: {decEdit, cat(regionPrefix(), vLenPeers)},
		fManifestVar:   {decEdit, cat(hdr(manifest.EditLogPointer), vOver11)},
	}
}
