// C16 — encodings round-trip, internal keys order correctly, decoders fail safely.
//
// Three oracle families over every codec the property names:
//
//	(a) round trip: decode(encode(v)) == v for generated structured values (empty, maximal, varint boundaries);
//	(b) ordering: utils.CompareKeys on internal keys agrees with the tuple order (cf asc, user key asc, version desc)
//	    and is a strict weak order;
//	(c) robustness: arbitrary bytes, every truncation and single-byte mutations of valid encodings never panic and
//	    never allocate more than 64*len(input)+64KiB.
package c16

import (
	"bytes"
	"encoding/binary"
	"fmt"
	"io"
	"math"
	"reflect"
	"runtime"
	"testing"
	"testing/iotest"

	"github.com/feichai0017/NoKV/kv"
	"github.com/feichai0017/NoKV/manifest"
	"github.com/feichai0017/NoKV/pb"
	"github.com/feichai0017/NoKV/percolator"
	myraft "github.com/feichai0017/NoKV/raft"
	"github.com/feichai0017/NoKV/raftstore/command"
	"github.com/feichai0017/NoKV/raftstore/engine"
	"github.com/feichai0017/NoKV/utils"
	raftpb "go.etcd.io/raft/v3/raftpb"
	"google.golang.org/protobuf/proto"
	"nokvverif/internal/pbt"
	"pgregory.net/rapid"
)

// The decoders under test are sequential; a single P makes the stop-the-world
// pauses of runtime.ReadMemStats (two per measured batch) cheap.
func TestMain(m *testing.M) { runtime.GOMAXPROCS(1); pbt.RunMain(m) }

// Mut parametrises the robustness inputs derived from one valid encoding.
type Mut struct {
	X     byte   // xor mask applied to every position in turn (0 is replaced by 0xff)
	Pokes []Poke // single-byte replacements
}
type Poke struct {
	Pos uint16 // taken modulo the encoding length
	Val byte
}

// derive lists every strict truncation and the single-byte mutations of enc.
// Long encodings (> 600 bytes) are sampled: the first 48 and last 16 positions
// plus a stride, so that a case stays O(n).
func derive(enc []byte, m Mut) (trunc, mutated [][]byte) {
	n := len(enc)
	pick := func(i int) bool {
		if n <= 600 || i < 48 || i >= n-16 {
			return true
		}
		return i%(n/64+1) == int(m.X)%(n/64+1)
	}
	for i := 0; i < n; i++ {
		if pick(i) {
			trunc = append(trunc, enc[:i])
		}
	}
	x := m.X
	if x == 0 {
		x = 0xff
	}
	for i := 0; i < n; i++ {
		if pick(i) {
			c := append([]byte(nil), enc...)
			c[i] ^= x
			mutated = append(mutated, c)
		}
	}
	for _, p := range m.Pokes {
		if n == 0 {
			break
		}
		i := int(p.Pos) % n
		if enc[i] == p.Val {
			continue
		}
		c := append([]byte(nil), enc...)
		c[i] = p.Val
		mutated = append(mutated, c)
	}
	return
}

func robust(r *pbt.Rec, enc []byte, m Mut, decs ...*decoder) error {
	tr, mu := derive(enc, m)
	r.LabelN("truncations", len(tr))
	r.LabelN("mutations", len(mu))
	all := append(tr, mu...)
	for _, d := range decs {
		if err := checkBatch(d, all, r); err != nil {
			return err
		}
	}
	return nil
}

func beq(a, b []byte) bool { return bytes.Equal(a, b) } // nil == empty

func varintClass(v uint64) string {
	switch {
	case v == 0:
		return "0"
	case v == math.MaxUint64:
		return "max"
	case v >= 1<<63:
		return ">=2^63"
	case v >= 1<<32:
		return ">=2^32"
	case v >= 128:
		return ">=128"
	}
	return "<128"
}

// ================================================================ entry records

type EntryCase struct {
	Key, Value HB
	Meta       byte
	ExpiresAt  uint64
	HK, HV     uint32 // stand-alone header lengths (not backed by data) for the EntryHeader round trip
	M          Mut
}

func runEntry(c EntryCase, r *pbt.Rec) error {
	e := &kv.Entry{Key: c.Key, Value: c.Value, Meta: c.Meta, ExpiresAt: c.ExpiresAt}
	var buf bytes.Buffer
	out, err := kv.EncodeEntry(&buf, e)
	if err != nil {
		return pbt.Failf("rt:entry", "EncodeEntry failed: %v", err)
	}
	enc := append([]byte(nil), out...)
	if out2, err := kv.EncodeEntry(nil, e); err != nil || !beq(out2, enc) {
		return pbt.Failf("rt:entry", "EncodeEntry(nil buffer) differs from EncodeEntry(buffer): %v", err)
	}
	r.Label("entry:klen=" + varintClass(uint64(len(c.Key))))
	r.Label("entry:vlen=" + varintClass(uint64(len(c.Value))))
	r.Label("entry:expires=" + varintClass(c.ExpiresAt))
	if len(c.Key) > 0 || len(c.Value) > 0 || c.Meta != 0 || c.ExpiresAt != 0 {
		r.NT()
	}

	// --- EntryHeader: the record starts with the header encoding; header round trips on its own
	for _, h := range []kv.EntryHeader{
		{KeyLen: uint32(len(c.Key)), ValueLen: uint32(len(c.Value)), Meta: c.Meta, ExpiresAt: c.ExpiresAt},
		{KeyLen: c.HK, ValueLen: c.HV, Meta: c.Meta, ExpiresAt: c.ExpiresAt},
	} {
		hb := make([]byte, kv.MaxEntryHeaderSize)
		n := h.Encode(hb)
		var h2, h3 kv.EntryHeader
		m, err := h2.Decode(hb[:n])
		if err != nil || m != n || h2 != h {
			return pbt.Failf("rt:header", "EntryHeader %+v -> %s -> Decode = %+v n=%d err=%v", h, hx(hb[:n]), h2, m, err)
		}
		m, err = h3.DecodeFrom(kv.NewHashReader(bytes.NewReader(hb[:n])))
		if err != nil || m != n || h3 != h {
			return pbt.Failf("rt:header", "EntryHeader %+v -> %s -> DecodeFrom = %+v n=%d err=%v", h, hx(hb[:n]), h3, m, err)
		}
		if int(h.KeyLen) == len(c.Key) && int(h.ValueLen) == len(c.Value) && !beq(enc[:n], hb[:n]) {
			return pbt.Failf("rt:entry", "record does not start with its header encoding: %s vs %s", hx(enc[:n]), hx(hb[:n]))
		}
	}
	hlen := 0
	{
		var h kv.EntryHeader
		hlen, _ = h.Decode(enc)
	}
	if want := hlen + len(c.Key) + len(c.Value) + 4; len(enc) != want {
		return pbt.Failf("rt:entry", "record length %d, want header %d + key %d + value %d + crc 4", len(enc), hlen, len(c.Key), len(c.Value))
	}

	same := func(what string, d *kv.Entry) error {
		if !beq(d.Key, c.Key) || !beq(d.Value, c.Value) || d.Meta != c.Meta || d.ExpiresAt != c.ExpiresAt || d.Hlen != hlen {
			return pbt.Failf("rt:entry", "%s: got key=%s value=%s meta=%d exp=%d hlen=%d, want key=%s value=%s meta=%d exp=%d hlen=%d",
				what, hx(d.Key), hx(d.Value), d.Meta, d.ExpiresAt, d.Hlen, hx(c.Key), hx(c.Value), c.Meta, c.ExpiresAt, hlen)
		}
		return nil
	}
	// --- DecodeEntry
	d, err := kv.DecodeEntry(enc)
	if err != nil {
		return pbt.Failf("rt:entry", "DecodeEntry(EncodeEntry(e)) failed: %v (%s)", err, hx(enc))
	}
	if err := same("DecodeEntry", d); err != nil {
		return err
	}
	d.DecrRef()
	// --- DecodeEntryFrom on a stream of two records followed by EOF, plain and one byte at a time
	stream := cat(enc, enc)
	for _, mk := range []func() io.Reader{
		func() io.Reader { return bytes.NewReader(stream) },
		func() io.Reader { return iotest.OneByteReader(bytes.NewReader(stream)) },
	} {
		rd := mk()
		for i := 0; i < 2; i++ {
			d, n, err := kv.DecodeEntryFrom(rd)
			if err != nil {
				return pbt.Failf("rt:entry", "DecodeEntryFrom record %d of stream failed: %v", i, err)
			}
			if int(n) != len(enc) {
				return pbt.Failf("rt:entry", "DecodeEntryFrom record length %d, want %d", n, len(enc))
			}
			if err := same("DecodeEntryFrom", d); err != nil {
				return err
			}
			d.DecrRef()
		}
		if _, _, err := kv.DecodeEntryFrom(rd); err != io.EOF {
			return pbt.Failf("rt:entry", "DecodeEntryFrom at end of stream: err=%v, want io.EOF", err)
		}
	}
	// --- DecodeValueSlice
	val, h, err := kv.DecodeValueSlice(enc)
	if err != nil || !beq(val, c.Value) || int(h.KeyLen) != len(c.Key) || int(h.ValueLen) != len(c.Value) || h.Meta != c.Meta || h.ExpiresAt != c.ExpiresAt {
		return pbt.Failf("rt:valueslice", "DecodeValueSlice = %s %+v err=%v, want value %s", hx(val), h, err, hx(c.Value))
	}

	// --- a strict prefix of a record can never be a record: must be rejected
	tr, _ := derive(enc, c.M)
	for _, p := range tr {
		if ok, _ := admit(decEntry, p, nil); !ok {
			continue
		}
		p = clip(p)
		if d, err := kv.DecodeEntry(p); err == nil {
			d.DecrRef()
			return pbt.Failf("trunc-accepted:entry", "DecodeEntry accepted a strict prefix (%d of %d bytes) of %s", len(p), len(enc), hx(enc))
		}
		if _, _, err := kv.DecodeValueSlice(p); err == nil {
			return pbt.Failf("trunc-accepted:valueslice", "DecodeValueSlice accepted a strict prefix (%d of %d bytes) of %s", len(p), len(enc), hx(enc))
		}
	}
	return robust(r, enc, c.M, decEntry, decEntryStream, decValueSlice, decHeader)
}

// ================================================================ value struct / value pointer

type ValueCase struct {
	Meta      byte
	ExpiresAt uint64
	Value     HB
	Ptr       kv.ValuePtr
	M         Mut
}

func runValue(c ValueCase, r *pbt.Rec) error {
	check := func(vs kv.ValueStruct) ([]byte, error) {
		sz := vs.EncodedSize()
		b := make([]byte, sz)
		n := vs.EncodeValue(b)
		if n != sz {
			return nil, pbt.Failf("rt:valuestruct", "EncodedSize=%d but EncodeValue wrote %d (%+v)", sz, n, vs)
		}
		var d kv.ValueStruct
		d.DecodeValue(b[:n])
		if d.Meta != vs.Meta || d.ExpiresAt != vs.ExpiresAt || !beq(d.Value, vs.Value) {
			return nil, pbt.Failf("rt:valuestruct", "ValueStruct %+v -> %s -> %+v", vs, hx(b[:n]), d)
		}
		return b[:n], nil
	}
	r.Label("value:expires=" + varintClass(c.ExpiresAt))
	if len(c.Value) > 0 || c.Meta != 0 || c.ExpiresAt != 0 {
		r.NT()
	}
	enc, err := check(kv.ValueStruct{Meta: c.Meta, ExpiresAt: c.ExpiresAt, Value: c.Value, Version: 99})
	if err != nil {
		return err
	}
	// value pointer: fixed 16 bytes, also when embedded in a ValueStruct
	pe := c.Ptr.Encode()
	var p kv.ValuePtr
	p.Decode(pe)
	if len(pe) != 16 || p != c.Ptr || p.IsZero() != (c.Ptr == kv.ValuePtr{}) {
		return pbt.Failf("rt:valueptr", "ValuePtr %+v -> %s -> %+v", c.Ptr, hx(pe), p)
	}
	enc2, err := check(kv.ValueStruct{Meta: c.Meta | kv.BitValuePointer, ExpiresAt: c.ExpiresAt, Value: pe})
	if err != nil {
		return err
	}
	var d kv.ValueStruct
	d.DecodeValue(enc2)
	var q kv.ValuePtr
	q.Decode(d.Value)
	if q != c.Ptr {
		return pbt.Failf("rt:valueptr", "embedded ValuePtr %+v came back as %+v", c.Ptr, q)
	}
	if err := robust(r, enc, c.M, decValueStruct); err != nil {
		return err
	}
	return robust(r, pe, c.M, decValuePtr)
}

// ================================================================ internal keys: round trip and order

type KeyT struct {
	CF  uint8
	Key HB
	Ts  uint64
}

func (k KeyT) cf() kv.ColumnFamily { // InternalKey maps undefined families to the default one
	if cf := kv.ColumnFamily(k.CF); cf.Valid() {
		return cf
	}
	return kv.CFDefault
}
func (k KeyT) ik() []byte { return kv.InternalKey(kv.ColumnFamily(k.CF), k.Key, k.Ts) }

// tupleCmp is the order the property states: cf asc, user key asc, version desc.
func tupleCmp(a, b KeyT) int {
	if a.cf() != b.cf() {
		if a.cf() < b.cf() {
			return -1
		}
		return 1
	}
	if c := bytes.Compare(a.Key, b.Key); c != 0 {
		return c
	}
	switch {
	case a.Ts > b.Ts:
		return -1
	case a.Ts < b.Ts:
		return 1
	}
	return 0
}

func sign(x int) int {
	switch {
	case x < 0:
		return -1
	case x > 0:
		return 1
	}
	return 0
}

type OrderCase struct {
	K   [3]KeyT
	Raw [3]HB // arbitrary byte strings, each padded to > 8 bytes: comparator laws only
}

func runOrder(c OrderCase, r *pbt.Rec) error {
	var iks [3][]byte
	for i, k := range c.K {
		ik := k.ik()
		iks[i] = ik
		// layout and round trip
		if len(ik) != 4+len(k.Key)+8 {
			return pbt.Failf("rt:key", "InternalKey length %d for user key of %d bytes", len(ik), len(k.Key))
		}
		cf, uk, ts := kv.SplitInternalKey(ik)
		if cf != k.cf() || !beq(uk, k.Key) || ts != k.Ts {
			return pbt.Failf("rt:key", "SplitInternalKey(InternalKey(%d,%s,%d)) = (%d,%s,%d)", k.CF, hx(k.Key), k.Ts, cf, hx(uk), ts)
		}
		base := kv.EncodeKeyWithCF(kv.ColumnFamily(k.CF), k.Key)
		if cf2, uk2, ok := kv.DecodeKeyCF(base); !ok || cf2 != k.cf() || !beq(uk2, k.Key) {
			return pbt.Failf("rt:key", "DecodeKeyCF(EncodeKeyWithCF(%d,%s)) = (%d,%s,%v)", k.CF, hx(k.Key), cf2, hx(uk2), ok)
		}
		if kt := kv.KeyWithTs(base, k.Ts); !beq(kt, ik) {
			return pbt.Failf("rt:key", "KeyWithTs(EncodeKeyWithCF(..),ts)=%s differs from InternalKey=%s", hx(kt), hx(ik))
		}
		if !beq(kv.ParseKey(ik), base) || kv.ParseTs(ik) != k.Ts {
			return pbt.Failf("rt:key", "ParseKey/ParseTs(%s) = %s,%d want %s,%d", hx(ik), hx(kv.ParseKey(ik)), kv.ParseTs(ik), hx(base), k.Ts)
		}
		// KeyWithTs on a bare (non-empty) key, as the compaction range builders use it
		if len(k.Key) > 0 {
			kt := kv.KeyWithTs(k.Key, k.Ts)
			if !beq(kv.ParseKey(kt), k.Key) || kv.ParseTs(kt) != k.Ts {
				return pbt.Failf("rt:key", "KeyWithTs(%s,%d) parsed back as %s,%d", hx(k.Key), k.Ts, hx(kv.ParseKey(kt)), kv.ParseTs(kt))
			}
		}
		r.Label("key:ts=" + varintClass(k.Ts))
		r.Label(fmt.Sprintf("key:cf=%d", k.CF))
	}
	// (b) comparator == tuple order on every ordered pair, incl. reflexive
	rel := map[int]int{}
	for i := 0; i < 3; i++ {
		for j := 0; j < 3; j++ {
			got := sign(utils.CompareKeys(iks[i], iks[j]))
			want := tupleCmp(c.K[i], c.K[j])
			rel[want]++
			if got != want {
				return pbt.Failf("order:tuple", "CompareKeys(%+v, %+v) = %d, tuple order says %d", c.K[i], c.K[j], got, want)
			}
			if (got == 0) != beq(iks[i], iks[j]) {
				return pbt.Failf("order:equal", "CompareKeys == 0 must coincide with byte equality: %s vs %s", hx(iks[i]), hx(iks[j]))
			}
			if kv.SameKey(iks[i], iks[j]) != (c.K[i].cf() == c.K[j].cf() && beq(c.K[i].Key, c.K[j].Key)) {
				return pbt.Failf("order:samekey", "SameKey(%+v,%+v) wrong", c.K[i], c.K[j])
			}
		}
	}
	cls := func(a, b KeyT) string {
		switch {
		case a.cf() != b.cf():
			return "differ:cf"
		case !beq(a.Key, b.Key):
			if bytes.HasPrefix(a.Key, b.Key) || bytes.HasPrefix(b.Key, a.Key) {
				return "differ:key-prefix"
			}
			return "differ:key"
		case a.Ts != b.Ts:
			return "differ:ts"
		}
		return "equal"
	}
	r.Label("pair:" + cls(c.K[0], c.K[1]))
	r.Label("pair:" + cls(c.K[1], c.K[2]))
	if rel[-1] > 0 && cls(c.K[0], c.K[1]) != "equal" && cls(c.K[1], c.K[2]) != "equal" {
		r.NT()
	}
	// strict weak order laws, on internal keys and on arbitrary byte strings
	for _, tri := range [][3][]byte{iks, {c.Raw[0], c.Raw[1], c.Raw[2]}} {
		ok := true
		for _, x := range tri {
			if len(x) <= 8 { // documented domain of CompareKeys: keys carry a timestamp
				ok = false
			}
		}
		if !ok {
			continue
		}
		cmp := func(i, j int) int { return sign(utils.CompareKeys(tri[i], tri[j])) }
		for i := 0; i < 3; i++ {
			if cmp(i, i) != 0 {
				return pbt.Failf("order:irreflexive", "CompareKeys(x,x) != 0 for %s", hx(tri[i]))
			}
			for j := 0; j < 3; j++ {
				if cmp(i, j) != -cmp(j, i) {
					return pbt.Failf("order:antisymmetry", "CompareKeys(%s,%s)=%d but reverse=%d", hx(tri[i]), hx(tri[j]), cmp(i, j), cmp(j, i))
				}
				for k := 0; k < 3; k++ {
					if cmp(i, j) <= 0 && cmp(j, k) <= 0 && cmp(i, k) > 0 {
						return pbt.Failf("order:transitivity", "%s <= %s <= %s but first > third", hx(tri[i]), hx(tri[j]), hx(tri[k]))
					}
					if cmp(i, j) == 0 && cmp(j, k) == 0 && cmp(i, k) != 0 {
						return pbt.Failf("order:equivalence", "equivalence not transitive on %s %s %s", hx(tri[i]), hx(tri[j]), hx(tri[k]))
					}
				}
			}
		}
	}
	all := [][]byte{iks[0], iks[1], iks[2], c.Raw[0], c.Raw[1], c.Raw[2]}
	for _, x := range [][]byte{iks[0], c.Raw[0]} {
		for i := 0; i <= len(x) && i < 24; i++ {
			all = append(all, x[:i])
		}
	}
	return checkBatch(decKeys, all, r)
}

// ================================================================ manifest edits

type ManifestCase struct {
	Edit manifest.Edit
	M    Mut
}

func normEdit(e manifest.Edit) manifest.Edit {
	nb := func(b []byte) []byte {
		if len(b) == 0 {
			return nil
		}
		return b
	}
	if e.File != nil {
		f := *e.File
		f.Smallest, f.Largest = nb(f.Smallest), nb(f.Largest)
		e.File = &f
	}
	if e.ValueLog != nil {
		v := *e.ValueLog
		e.ValueLog = &v
	}
	if e.Raft != nil {
		v := *e.Raft
		e.Raft = &v
	}
	if e.Region != nil {
		g := *e.Region
		g.Meta.StartKey, g.Meta.EndKey = nb(g.Meta.StartKey), nb(g.Meta.EndKey)
		if len(g.Meta.Peers) == 0 {
			g.Meta.Peers = nil
		}
		e.Region = &g
	}
	return e
}

func runManifest(c ManifestCase, r *pbt.Rec) error {
	e := c.Edit
	frame, err := manifest.VerifEncodeEdit(e)
	if err != nil {
		return pbt.Failf("rt:manifest", "encode failed: %v", err)
	}
	if len(frame) < 4 || int(binary.LittleEndian.Uint32(frame)) != len(frame)-4 {
		return pbt.Failf("rt:manifest", "frame header does not carry the payload length: %s", hx(frame))
	}
	r.Label(fmt.Sprintf("edit:type=%d", e.Type))
	want := normEdit(e)
	got, err := manifest.VerifDecodeEdit(frame[4:])
	if err != nil {
		return pbt.Failf("rt:manifest", "decodeEdit(writeEdit(e)) failed: %v; edit=%s payload=%s", err, js(e), hx(frame[4:]))
	}
	if g := normEdit(got); !reflect.DeepEqual(g, want) {
		return pbt.Failf("rt:manifest", "decodeEdit(writeEdit(e)) = %s, want %s (payload %s)", js(g), js(want), hx(frame[4:]))
	}
	// readEdit on a stream of two frames
	stream := cat(frame, frame)
	off := 0
	for i := 0; i < 2; i++ {
		got, n, err := manifest.VerifReadEdit(stream[off:])
		if err != nil || n != len(frame) {
			return pbt.Failf("rt:manifest", "readEdit frame %d: consumed %d of %d, err=%v", i, n, len(frame), err)
		}
		if g := normEdit(got); !reflect.DeepEqual(g, want) {
			return pbt.Failf("rt:manifest", "readEdit = %s, want %s", js(g), js(want))
		}
		off += n
	}
	if e.File != nil && (len(e.File.Smallest) > 0 || e.File.FileID > 0) || e.ValueLog != nil || e.Raft != nil && *e.Raft != (manifest.RaftLogPointer{}) ||
		e.Region != nil && (len(e.Region.Meta.Peers) > 0 || e.Region.Delete) || e.LogOffset > 0 {
		r.NT()
	}
	if err := robust(r, frame[4:], c.M, decEdit); err != nil {
		return err
	}
	return robust(r, frame, c.M, decFrame)
}

// ================================================================ percolator lock / write records

type PercCase struct {
	Lock struct {
		Primary              HB
		Ts, TTL, MinCommitTs uint64
		Kind                 uint8
	}
	Write struct {
		Kind       uint8
		StartTs    uint64
		ShortValue HB
	}
	M Mut
}

func runPerc(c PercCase, r *pbt.Rec) error {
	l := percolator.Lock{Primary: c.Lock.Primary, Ts: c.Lock.Ts, TTL: c.Lock.TTL, Kind: pb.Mutation_Op(c.Lock.Kind), MinCommitTs: c.Lock.MinCommitTs}
	le := percolator.EncodeLock(l)
	dl, err := percolator.DecodeLock(le)
	if err != nil || !beq(dl.Primary, l.Primary) || dl.Ts != l.Ts || dl.TTL != l.TTL || dl.Kind != l.Kind || dl.MinCommitTs != l.MinCommitTs {
		return pbt.Failf("rt:lock", "DecodeLock(EncodeLock(%+v)) = %+v err=%v (%s)", l, dl, err, hx(le))
	}
	w := percolator.Write{Kind: pb.Mutation_Op(c.Write.Kind), StartTs: c.Write.StartTs, ShortValue: c.Write.ShortValue}
	we := percolator.EncodeWrite(w)
	dw, err := percolator.DecodeWrite(we)
	if err != nil || dw.Kind != w.Kind || dw.StartTs != w.StartTs || !beq(dw.ShortValue, w.ShortValue) {
		return pbt.Failf("rt:write", "DecodeWrite(EncodeWrite(%+v)) = %+v err=%v (%s)", w, dw, err, hx(we))
	}
	r.Label("lock:primary=" + varintClass(uint64(len(l.Primary))))
	r.Label("lock:ts=" + varintClass(l.Ts))
	r.Label("lock:mincommit=" + varintClass(l.MinCommitTs))
	r.Label("write:short=" + varintClass(uint64(len(w.ShortValue))))
	if len(l.Primary) > 0 || l.MinCommitTs > 0 || len(w.ShortValue) > 0 {
		r.NT()
	}
	if err := robust(r, le, c.M, decLock); err != nil {
		return err
	}
	return robust(r, we, c.M, decWrite)
}

// ================================================================ raft WAL payloads

type RaftEnt struct {
	Term, Index uint64
	Type        int32
	Data        HB
}
type RaftCase struct {
	Group   uint64
	Entries []RaftEnt
	HS      struct{ Term, Vote, Commit uint64 }
	Snap    struct {
		Data                                           HB
		Index, Term                                    uint64
		Voters, Learners, VotersOutgoing, LearnersNext []uint64
		AutoLeave                                      bool
	}
	M Mut
}

func u64s(a []uint64) []uint64 {
	if len(a) == 0 {
		return nil
	}
	return a
}

func runRaft(c RaftCase, r *pbt.Rec) error {
	// entries
	ents := make([]myraft.Entry, 0, len(c.Entries))
	for _, e := range c.Entries {
		ents = append(ents, myraft.Entry{Term: e.Term, Index: e.Index, Type: raftpb.EntryType(e.Type), Data: e.Data})
	}
	ee, err := engine.VerifEncodeRaftEntries(c.Group, ents)
	if err != nil {
		return pbt.Failf("rt:raft-entries", "encode: %v", err)
	}
	g, de, err := engine.VerifDecodeRaftEntries(ee)
	if err != nil || g != c.Group || len(de) != len(ents) {
		return pbt.Failf("rt:raft-entries", "decode(encode(group %d, %d entries)) = group %d, %d entries, err=%v (%s)", c.Group, len(ents), g, len(de), err, hx(ee))
	}
	for i := range ents {
		if de[i].Term != ents[i].Term || de[i].Index != ents[i].Index || de[i].Type != ents[i].Type || !beq(de[i].Data, ents[i].Data) {
			return pbt.Failf("rt:raft-entries", "entry %d: %+v came back as %+v", i, ents[i], de[i])
		}
	}
	// hard state
	hs := myraft.HardState{Term: c.HS.Term, Vote: c.HS.Vote, Commit: c.HS.Commit}
	he, err := engine.VerifEncodeRaftHardState(c.Group, hs)
	if err != nil {
		return pbt.Failf("rt:raft-hardstate", "encode: %v", err)
	}
	g, dh, err := engine.VerifDecodeRaftHardState(he)
	if err != nil || g != c.Group || dh != hs {
		return pbt.Failf("rt:raft-hardstate", "decode(encode(%d,%+v)) = %d,%+v err=%v", c.Group, hs, g, dh, err)
	}
	// snapshot
	sn := myraft.Snapshot{Data: c.Snap.Data, Metadata: raftpb.SnapshotMetadata{Index: c.Snap.Index, Term: c.Snap.Term,
		ConfState: raftpb.ConfState{Voters: u64s(c.Snap.Voters), Learners: u64s(c.Snap.Learners), VotersOutgoing: u64s(c.Snap.VotersOutgoing), LearnersNext: u64s(c.Snap.LearnersNext), AutoLeave: c.Snap.AutoLeave}}}
	se, err := engine.VerifEncodeRaftSnapshot(c.Group, sn)
	if err != nil {
		return pbt.Failf("rt:raft-snapshot", "encode: %v", err)
	}
	g, ds, err := engine.VerifDecodeRaftSnapshot(se)
	if err != nil || g != c.Group || !beq(ds.Data, sn.Data) || !reflect.DeepEqual(ds.Metadata, sn.Metadata) {
		return pbt.Failf("rt:raft-snapshot", "decode(encode(%d,%+v)) = %d,%+v err=%v", c.Group, sn, g, ds, err)
	}
	r.Label(fmt.Sprintf("raft:entries=%d", min(len(ents), 4)))
	r.Label("raft:group=" + varintClass(c.Group))
	if len(ents) > 0 || hs != (myraft.HardState{}) || len(sn.Data) > 0 || len(c.Snap.Voters) > 0 {
		r.NT()
	}
	if err := robust(r, ee, c.M, decRaftEntries); err != nil {
		return err
	}
	if err := robust(r, he, c.M, decRaftHardState); err != nil {
		return err
	}
	return robust(r, se, c.M, decRaftSnapshot)
}

// ================================================================ raft command frames

type MutT struct {
	Op         int32
	Key, Value HB
	Assert     bool
}
type ReqT struct {
	CmdType int32
	Which   int // 0 = no payload, 1..7 = the oneof arms in declaration order
	Key     HB
	Keys    []HB
	U       [5]uint64
	Limit   uint32
	B1, B2  bool
	Muts    []MutT
}
type CmdCase struct {
	HasHeader, HasEpoch                   bool
	Region, Peer, ReqID, ConfVer, Version uint64
	ReadQuorum                            bool
	Reqs                                  []ReqT
	M                                     Mut
}

func (c CmdCase) build() *pb.RaftCmdRequest {
	req := &pb.RaftCmdRequest{}
	if c.HasHeader {
		req.Header = &pb.CmdHeader{RegionId: c.Region, PeerId: c.Peer, RequestId: c.ReqID, ReadQuorum: c.ReadQuorum}
		if c.HasEpoch {
			req.Header.RegionEpoch = &pb.RegionEpoch{ConfVer: c.ConfVer, Version: c.Version}
		}
	}
	keys := func(k []HB) [][]byte {
		var o [][]byte
		for _, x := range k {
			o = append(o, []byte(x))
		}
		return o
	}
	for _, q := range c.Reqs {
		p := &pb.Request{CmdType: pb.CmdType(q.CmdType)}
		switch q.Which {
		case 1:
			p.Cmd = &pb.Request_Get{Get: &pb.GetRequest{Key: q.Key, Version: q.U[0]}}
		case 2:
			p.Cmd = &pb.Request_Scan{Scan: &pb.ScanRequest{StartKey: q.Key, Limit: q.Limit, Version: q.U[0], IncludeStart: q.B1, Reverse: q.B2}}
		case 3:
			pw := &pb.PrewriteRequest{PrimaryLock: q.Key, StartVersion: q.U[0], LockTtl: q.U[1], TxnSize: q.U[2], MinCommitTs: q.U[3]}
			for _, m := range q.Muts {
				pw.Mutations = append(pw.Mutations, &pb.Mutation{Op: pb.Mutation_Op(m.Op), Key: m.Key, Value: m.Value, AssertionNotExist: m.Assert})
			}
			p.Cmd = &pb.Request_Prewrite{Prewrite: pw}
		case 4:
			p.Cmd = &pb.Request_Commit{Commit: &pb.CommitRequest{Keys: keys(q.Keys), StartVersion: q.U[0], CommitVersion: q.U[1]}}
		case 5:
			p.Cmd = &pb.Request_BatchRollback{BatchRollback: &pb.BatchRollbackRequest{Keys: keys(q.Keys), StartVersion: q.U[0]}}
		case 6:
			p.Cmd = &pb.Request_ResolveLock{ResolveLock: &pb.ResolveLockRequest{StartVersion: q.U[0], CommitVersion: q.U[1], Keys: keys(q.Keys)}}
		case 7:
			p.Cmd = &pb.Request_CheckTxnStatus{CheckTxnStatus: &pb.CheckTxnStatusRequest{PrimaryKey: q.Key, LockTs: q.U[0], CurrentTs: q.U[1], RollbackIfNotExist: q.B1, CallerStartTs: q.U[2], CurrentTime: q.U[3]}}
		}
		req.Requests = append(req.Requests, p)
	}
	return req
}

func runCmd(c CmdCase, r *pbt.Rec) error {
	req := c.build()
	enc, err := command.Encode(req)
	if err != nil {
		return pbt.Failf("rt:command", "Encode failed: %v", err)
	}
	if len(enc) == 0 || enc[0] != command.PayloadPrefix {
		return pbt.Failf("rt:command", "frame does not start with the command prefix: %s", hx(enc))
	}
	got, is, err := command.Decode(enc)
	if err != nil || !is || !proto.Equal(got, req) {
		return pbt.Failf("rt:command", "Decode(Encode(req)) = %v, isCmd=%v, err=%v; want %v", got, is, err, req)
	}
	if _, is, err := command.Decode(enc[1:]); len(enc) > 1 && enc[1] != command.PayloadPrefix && (is || err != nil) {
		return pbt.Failf("rt:command", "payload without prefix must be reported as not-a-command, got is=%v err=%v", is, err)
	}
	r.Label(fmt.Sprintf("cmd:requests=%d", min(len(c.Reqs), 4)))
	for _, q := range c.Reqs {
		r.Label(fmt.Sprintf("cmd:arm=%d", q.Which))
	}
	if len(c.Reqs) > 0 && c.HasHeader {
		r.NT()
	}
	return robust(r, enc, c.M, decCommand)
}

// ================================================================ arbitrary bytes

type BytesCase struct {
	Dec  string
	Data HB
}

func runBytes(c BytesCase, r *pbt.Rec) error {
	d := decoderByName(c.Dec)
	if d == nil {
		return fmt.Errorf("unknown decoder %q", c.Dec)
	}
	r.Label("bytes:" + c.Dec)
	return checkOne(d, c.Data, r)
}

// runRaw hands the input to the decoder without consulting the open-finding
// screen: it is the spec of the committed replay files (known findings, regress
// inputs), which must keep failing while their defect is present.
func runRaw(c BytesCase, r *pbt.Rec) error {
	d := decoderByName(c.Dec)
	if d == nil {
		return fmt.Errorf("unknown decoder %q", c.Dec)
	}
	if d.screen != nil {
		if s := d.screen(c.Data); s.danger {
			return fmt.Errorf("replay input declares a dangerous allocation; refusing to run it")
		}
	}
	return measureOne(d, c.Data)
}

func staticBytes() []BytesCase {
	var out []BytesCase
	for _, d := range allDecoders {
		for _, s := range d.seeds() {
			out = append(out, BytesCase{Dec: d.name, Data: s})
			for i := range s { // every truncation of every seed
				out = append(out, BytesCase{Dec: d.name, Data: s[:i]})
			}
		}
		for _, h := range hostileVs { // every hostile varint spelling on its own and after each seed's first byte
			out = append(out, BytesCase{Dec: d.name, Data: h})
			for _, s := range d.seeds() {
				if len(s) > 0 {
					out = append(out, BytesCase{Dec: d.name, Data: cat(s[:1], h)})
				}
			}
		}
	}
	return out
}

func js(v any) string {
	b, _ := jsonMarshal(v)
	return string(b)
}

// ================================================================ suite

func TestCheck(t *testing.T) {
	s := &pbt.Suite{ID: "C16", Level: "exploration",
		Rule: "Per codec (entry record/header/value slice, ValueStruct, ValuePtr, internal keys, manifest edit + frame, percolator lock/write, raft WAL entries/hard state/snapshot, raft command frame): " +
			"(a) decode(encode(v)) must equal v for rapid-generated structured values with varint-boundary, empty and maximal fields; " +
			"(b) utils.CompareKeys on kv.InternalKey triples must equal the tuple order (cf asc, user key asc, version desc) and satisfy the strict-weak-order laws (also on arbitrary >8-byte strings); " +
			"(c) for every strict truncation and single-byte mutations of each valid encoding, and for generated / enumerated hostile byte strings, the real decoder must not panic and its runtime.MemStats.TotalAlloc delta must stay <= 64*len(input)+64KiB. " +
			"Non-trivial: (a) a value with >=1 non-zero optional field; (b) a triple with at least one strict inequality and no equal neighbours; (c) an input whose structural pre-screen shows the decoder consumes >=1 field before deciding. Distinct by case content.",
		Assumptions: []string{
			"allocation tolerance 64*len(input)+64KiB is this check's reading of 'out of proportion to the input'",
			"round-trip domain = values the encoders' callers can produce: manifest Edit carries the sub-record of its type (File for add/delete, Raft/Region non-nil), EditValueLogHead has Valid=true, EditDeleteValueLog carries only bucket+file id, a region delete carries only the id, FileMeta.Level >= 0, Mutation_Op fits one byte; nil and empty byte slices are the same value",
			"decoders without an error result (ValueStruct.DecodeValue, ValuePtr.Decode, key parsers) are held to 'no panic, bounded allocation'",
			"CompareKeys is only applied to keys longer than 8 bytes (its documented domain)",
			"a strict prefix of an entry record must be rejected (the record is length-delimited and checksummed); for the other codecs a truncation may legitimately decode (optional trailing fields)",
		},
	}
	pbt.Add(s, &pbt.Spec[EntryCase]{Name: "entry", Gen: genEntry, Run: runEntry, Quick: 36000, Thorough: 400000, Shards: 8})
	pbt.Add(s, &pbt.Spec[ValueCase]{Name: "value", Gen: genValue, Run: runValue, Quick: 36000, Thorough: 400000, Shards: 4})
	pbt.Add(s, &pbt.Spec[OrderCase]{Name: "order", Gen: genOrder, Run: runOrder, Quick: 90000, Thorough: 1000000, Shards: 8})
	pbt.Add(s, &pbt.Spec[ManifestCase]{Name: "manifest", Gen: genManifest, Run: runManifest, Quick: 60000, Thorough: 600000, Shards: 8})
	pbt.Add(s, &pbt.Spec[PercCase]{Name: "percolator", Gen: genPerc, Run: runPerc, Quick: 48000, Thorough: 500000, Shards: 8})
	pbt.Add(s, &pbt.Spec[RaftCase]{Name: "raftlog", Gen: genRaft, Run: runRaft, Quick: 30000, Thorough: 300000, Shards: 8})
	pbt.Add(s, &pbt.Spec[CmdCase]{Name: "command", Gen: genCmd, Run: runCmd, Quick: 30000, Thorough: 300000, Shards: 8})
	pbt.Add(s, &pbt.Spec[BytesCase]{Name: "bytes", Gen: genBytes, Run: runBytes, Static: staticBytes, Quick: 240000, Thorough: 2500000, Shards: 8})
	// "replay" is the spec of the committed replay files; its small generator (decoders that have no
	// open-finding screen, so runRaw == runBytes) only exists so that a VERIF_CASES override finds work to do.
	pbt.Add(s, &pbt.Spec[BytesCase]{Name: "replay", Run: runRaw, Quick: 200, Thorough: 2000, Gen: func(t *rapid.T) BytesCase {
		d := rapid.SampledFrom([]*decoder{decValuePtr, decKeys, decHeader, decValueSlice, decCommand}).Draw(t, "dec")
		return BytesCase{Dec: d.name, Data: rapid.SliceOfN(rapid.Byte(), 0, 40).Draw(t, "raw")}
	}})
	if pbt.Tier() == "thorough" {
		runNativeFuzz(t, s)
	}
	s.Main(t)
}
